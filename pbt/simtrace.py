"""Oracles over the trace of one simulation scenario (C04-C09, C11-C14).

`analyze(case_text, result)` replays the trace written by harness/m_sim.c,
maintains a reference model built ONLY from what the calling processes were
told (return values, out-parameters) plus the scenario text, and compares it
with the library's own query results (snapshot lines) and with the validity
predicates of DESIGN.md par. 3. It returns an `Analysis` whose `violations` is a
list of (family, signature, message) in trace order; each property module picks
its own family.

Soundness rules (DESIGN.md par. 2.1) are implemented here:
  * blocked vs immediate: a call whose C and R records carry the same evno
    never yielded;
  * notifications are "may be delivered once", user timers "must fire unless
    voided"; an interrupt / preemption delivery makes earlier notifications
    optional, the end of a process kills everything addressed to it;
  * leaving a wait for another ledgered reason that is due in the same instant
    is always accepted;
  * equal priority and equal arrival instant is never part of an expectation;
  * comparisons involving a process whose priority changed in the instant under
    examination are skipped (counted).
"""
from fractions import Fraction

SUCCESS, PREEMPTED, INTERRUPTED, STOPPED, CANCELLED, TIMEOUT = 0, -1, -2, -3, -4, -5

BLOCKING = {"hold", "yield", "acquire", "preempt", "pacq", "ppre", "bput", "bget", "oput", "oget",
            "kput", "kget", "cwait", "wait_proc", "wait_ev"}


def fx(s):
    return float.fromhex(s) if ("x" in s or "X" in s) else float(s)


class Note(object):
    __slots__ = ("kind", "value", "due", "mandatory", "delivered", "dead", "src", "handle", "seq")

    def __init__(self, kind, value, due, mandatory=False, src=None, handle=None, seq=0):
        self.kind, self.value, self.due = kind, value, due
        self.mandatory, self.delivered, self.dead = mandatory, False, False
        self.src, self.handle, self.seq = src, handle, seq


class Call(object):
    __slots__ = ("name", "args", "t", "evno", "seq", "opi", "obj", "side", "oblig", "sat_seen",
                 "removed", "completion", "base", "n", "prio_at_call", "progress_t", "last_g", "base0")

    def __init__(self, name, args, t, evno, seq, opi):
        self.name, self.args, self.t, self.evno, self.seq, self.opi = name, args, t, evno, seq, opi
        self.obj = None
        self.side = 0
        self.oblig = None         # (time, why) - must return SUCCESS within that instant (C13)
        self.sat_seen = {}        # instant -> True if satisfied at some signal of that instant
        self.removed = False
        self.completion = None    # ('procend'|'ev', time, code)
        self.base = 0
        self.n = 0
        self.prio_at_call = 0
        self.base0 = 0            # holding when the call was made (base is lowered when the holding is robbed)
        self.progress_t = None    # last time a multi-step call was seen to make partial progress
        self.last_g = None


class Proc(object):
    def __init__(self, pid, prio):
        self.pid = pid
        self.prio = prio
        self.prio_changed_at = None
        self.status = "C"
        self.run = 0
        self.cur = None
        self.notes = []
        self.res = set()
        self.pool = {}
        self.ended = None          # (how, value, time, seq)
        self.ends = []             # history of ends [(how, value, time, seq)]
        self.start_pending = 0
        self.timers = {}           # handle -> Note
        self.ev_pos_t = None       # last time a snapshot showed events addressed to this process
        self.ev_pos_ev = -1        # ... and the number of that event


class Analysis(object):
    def __init__(self):
        self.violations = []       # (family, sig, msg)
        self.classes = set()
        self.stats = {}
        self.incomplete = False

    def first(self, family):
        for v in self.violations:
            if v[0] == family:
                return v
        return None


class Scenario(object):
    """Static information parsed from the case text."""

    def __init__(self, text):
        self.objs = {}      # name -> (kind, cap)
        self.links = []     # (cond, obj, side)
        self.procs = []     # prio0
        for ln in text.split("\n"):
            t = ln.split()
            if not t or t[0].startswith("#"):
                continue
            if t[0] in ("res", "pool", "buf", "oq", "pq", "cond"):
                cap = 1
                if len(t) >= 3:
                    cap = (2 ** 64 - 1) if t[2] in ("max", "unlimited") else int(t[2], 0)
                if t[0] == "res":
                    cap = 1
                self.objs[t[1]] = (t[0], cap)
            elif t[0] == "observe":
                nm, side = t[2], 0
                if "." in nm:
                    nm, sd = nm.split(".", 1)
                    side = 1 if sd in ("rear", "1") else 0
                self.links.append((t[1], nm, side))
            elif t[0] == "proc":
                self.procs.append(_ival(t[3]))


def _ival(s):
    if s == "min":
        return -2 ** 63
    if s == "max":
        return 2 ** 63 - 1
    return int(s, 0)


GUARD_OF_OP = {"acquire": 0, "preempt": 0, "pacq": 0, "ppre": 0, "bget": 0, "bput": 1,
               "oget": 0, "oput": 1, "kget": 0, "kput": 1, "cwait": 0}


class SimOracle(object):
    def __init__(self, text, res):
        self.sc = Scenario(text)
        self.res = res
        self.a = Analysis()
        self.procs = [Proc(i, p) for i, p in enumerate(self.sc.procs)]
        self.lib = {}                # snapshot key -> value string
        self.time = None             # current instant
        self.evno = 0
        self.holder = {}             # resource -> pid
        self.level_done = {}         # buffer -> Fraction-free int of completed transfers (put - get)
        self.oq = {}                 # oq -> list of values
        self.pq = {}                 # pq -> {handle: (value, prio)}
        self.pq_cancelled = {}
        self.uev = {}                # k -> dict(state='pending'|'done'|'cancelled', time)
        self.rec = {}                # obj -> list of windows dict(on_t, on_n, on_val, off_t, off_n, off_val)
        self.inst_state = []         # [(time, {obj: value})] end-of-instant states
        self.ppre_in_event = {}      # pool -> caller pid (preempt calls active in the current event)
        self.event_actor_calls = []  # names of ops executed in the current event
        self.done = False
        self.teardown = False
        self.n_events = 0
        self.same_instant_causes = 0
        self.pending_grants = {}
        self.arrivals = {}           # (obj, side) -> [(time, pid)]
        self.pq_seq = 0
        self.dropped_seq = {}        # object -> trace sequence number of the last end of a process that held it
        self.dropped_at = {}         # instant -> objects that an ending process held
        self.link_active = {lk: True for lk in self.sc.links}    # (cond, object, side) -> still subscribed
        self.traj = {}               # obj -> [(time, value, evno)] value after each event in which it changed
        self.skips = 0
        self.ops = 0
        for name, (kind, cap) in self.sc.objs.items():
            if kind == "buf":
                self.level_done[name] = 0
            elif kind == "oq":
                self.oq[name] = []
            elif kind == "pq":
                self.pq[name] = {}
                self.pq_cancelled[name] = []

    # ------------------------------------------------------------ helpers --
    def viol(self, family, sig, msg):
        self.a.violations.append((family, sig, "t=%s ev=%d: %s" % (self.time, self.evno, msg)))

    def cls(self, c):
        self.a.classes.add(c)

    def alive(self, p):
        return p.status == "R"

    def note(self, p, kind, value, due, mandatory=False, src=None, handle=None, seq=0):
        n = Note(kind, value, due, mandatory, src, handle, seq)
        # several causes for one process on one instant -> the interesting class
        if len(p.notes) < 64:
            for m in p.notes:
                if not m.delivered and not m.dead and m.due == due:
                    self.cls("multi-cause-same-instant")
                    break
        p.notes.append(n)
        return n

    # ------------------------------------------------------------ driving --
    def run(self):
        for ln in self.res.lines:
            if not ln:
                continue
            c = ln[0]
            if c == "D":
                self.teardown = True
                break
            t = ln.split()
            try:
                if c == "S":
                    self.on_snapshot(t)
                elif c in "CRKXBZLPGTU":
                    tm = fx(t[3])
                    self.advance(tm)
                    self.evno = int(t[2])
                    getattr(self, "on_" + c)(t)
                elif c == "Q":
                    self.on_quiescence(t)
                elif c == "V":
                    fam = t[1]
                    if fam == "CEILING":
                        self.a.incomplete = True
                    else:
                        self.viol(fam, "%s/query-invariant/%s" % (fam, " ".join(t[4:8])), " ".join(t[4:]))
                        if fam == "C07" and "sum of held_by_process" in ln and self.time is not None \
                                and t[4] in self.dropped_at.get(self.time, ()):
                            # C09: "everything it held is released" - the pool's books are wrong after the drop
                            self.viol("C09", "C09/holdings-not-released/pool-in_use",
                                      "a process holding units of %s ended in this instant and now: %s" % (t[4], " ".join(t[4:])))
                elif c == "H":
                    self.on_history(t)
                elif c == "M":
                    self.on_mean(t)
            except (IndexError, KeyError, ValueError) as e:   # a malformed trace is a machinery bug
                raise RuntimeError("trace handling failed on line %r: %r" % (ln, e))
        if not self.done and not self.a.incomplete:
            self.a.incomplete = True
        self.a.stats = dict(events=self.n_events, skips=self.skips, ops=self.ops)
        return self.a

    def advance(self, tm):
        """Called with the time of every record: detects the end of an instant."""
        if self.time is None:
            self.time = tm
            return
        if tm > self.time:
            self.end_of_instant(final=False)
            self.time = tm
        elif tm < self.time:
            # C01: the clock never decreases, whoever reads it (process, user event, dispatcher command)
            self.viol("C01", "C01/clock-went-backwards", "a record at clock %r follows one at %r" % (tm, self.time))
            self.time = tm

    # --------------------------------------------------------- snapshots --
    def on_snapshot(self, t):
        tm = fx(t[2])
        self.advance(tm)
        self.evno = int(t[1])
        self.n_events = self.evno
        for kv in t[3:]:
            k, v = kv.split("=", 1)
            self.lib[k] = v
        # per-event trajectory of every recordable object (C14: every change visible at an event
        # boundary must have its own sample)
        for name, (kind, cap) in self.sc.objs.items():
            if kind == "cond":
                continue
            v = self.value_of(name, kind)
            tr = self.traj.setdefault(name, [])
            if not tr or tr[-1][1] != v:
                tr.append((tm, v, self.evno))
        for p in self.procs:
            if self.lib_int("p%d.ev" % p.pid) > 0:
                p.ev_pos_t = tm
                p.ev_pos_ev = self.evno
        self.compare_model_with_library()
        self.ppre_in_event = {}

    def lib_int(self, key, default=0):
        v = self.lib.get(key)
        return int(v) if v is not None else default

    def lib_pool_held(self, name):
        v = self.lib.get(name + ".h", "-")
        out = {}
        if v != "-":
            for part in v.split(","):
                pid, amt = part.split(":")
                out[int(pid)] = int(amt)
        return out

    def lib_res_holders(self, name):
        v = self.lib.get(name + ".h", "-")
        return [] if v == "-" else [int(x) for x in v.split(",")]

    def compare_model_with_library(self):
        for name, (kind, cap) in self.sc.objs.items():
            if kind == "res":
                want = self.holder.get(name)
                got = self.lib_res_holders(name)
                if (want is None and got) or (want is not None and got != [want]):
                    fam = "C05"
                    who = got + ([want] if want is not None else [])
                    if any(self.procs[w].status == "F" for w in who if w < len(self.procs)):
                        fam = "C09"
                    msg = "%s: library attributes it to %s, the calling processes were told %s" % (
                        name, got or "nobody", "p%d" % want if want is not None else "nobody")
                    self.viol(fam, "%s/holder-disagrees" % fam, msg)
                    if fam == "C09":
                        # C05 too: "ending or stopping the holder frees the resource for the next waiter"
                        self.viol("C05", "C05/held-by-ended-process", msg + " (a process that has ended)")
                    self.holder[name] = got[0] if got else None   # resynchronise: report one defect once
                    for q in self.procs:
                        q.res.discard(name)
                    if got and got[0] < len(self.procs):
                        self.procs[got[0]].res.add(name)
                if self.lib_int(name + ".u") != (1 if got else 0):
                    self.viol("C05", "C05/in_use-vs-holder", "%s in_use=%s but held_by_process names %s"
                              % (name, self.lib.get(name + ".u"), got))
            elif kind == "pool":
                got = self.lib_pool_held(name)
                for p in self.procs:
                    g = got.get(p.pid, 0)
                    settled = p.pool.get(name, 0)
                    cur = p.cur
                    inflight = cur is not None and cur.name in ("pacq", "ppre") and cur.obj == name
                    robbed = False
                    if inflight:
                        lo, hi = cur.base, cur.base + cur.n
                        if cur.last_g is not None and g != cur.last_g:
                            cur.progress_t = self.evno
                        # while an acquisition is in flight the holding can only grow, unless it is taken away
                        robbed = cur.last_g is not None and g < cur.last_g
                        cur.last_g = g
                    else:
                        lo = hi = settled
                    if lo <= g <= hi and not robbed:
                        continue
                    callers = [(q.pid, q.prio) for q in self.procs if q is not p and q.cur is not None
                               and q.cur.name == "ppre" and q.cur.obj == name]
                    callers += [c for c in self.ppre_in_event.get(name, ()) if c[0] != p.pid]
                    if (g < lo or robbed) and callers:
                        # a victim of a preemption in this event
                        cpid, cprio = max(callers, key=lambda c: c[1])
                        self.cls("pool-preempt-victim")
                        if p.prio_changed_at != self.time and not (p.prio < cprio):
                            self.viol("C07", "C07/victim-not-lower-priority",
                                      "%s: p%d (priority %d) lost units to preempting p%d (priority %d)"
                                      % (name, p.pid, p.prio, cpid, cprio))
                        if g != 0:
                            self.viol("C07", "C07/victim-keeps-part", "%s: victim p%d keeps %d of %d" % (name, p.pid, g, lo))
                        p.pool[name] = g
                        if inflight:
                            cur.base, cur.n = g, 0
                            cur.completion = ("preempted-from", self.time, name)
                        self.void_timers(p)
                        n = self.note(p, "poolpreempt", PREEMPTED, self.time, mandatory=True, src=name)
                        n.seq = self.evno
                        continue
                    fam = "C09" if p.status == "F" else "C07"
                    self.viol(fam, "%s/pool-holding-disagrees" % fam,
                              "%s: library says p%d holds %d, the process was told %s"
                              % (name, p.pid, g, ("between %d and %d" % (lo, hi)) if inflight else settled))
                    p.pool[name] = g       # resynchronise so one defect is reported once
                    if inflight:
                        cur.base, cur.n = g, 0
            elif kind == "buf":
                want = self.level_done[name]
                for p in self.procs:
                    cur = p.cur
                    if cur is not None and cur.obj == name and cur.name in ("bput", "bget"):
                        am = self.lib_int("p%d.am" % p.pid, cur.n if cur.name == "bput" else 0)
                        want += (cur.n - am) if cur.name == "bput" else -am
                        if cur.last_g is not None and am != cur.last_g:
                            cur.progress_t = self.evno
                        cur.last_g = am
                got = self.lib_int(name + ".l")
                if got != want:
                    self.viol("C11", "C11/level-vs-transfers",
                              "%s: level %d but puts minus gets (completed + in flight) = %d" % (name, got, want))
                    self.level_done[name] += got - want
            elif kind == "oq":
                if self.lib_int(name + ".n") != len(self.oq[name]):
                    self.viol("C12", "C12/oq-length", "%s: length %d, model holds %d objects"
                              % (name, self.lib_int(name + ".n"), len(self.oq[name])))
            elif kind == "pq":
                if self.lib_int(name + ".n") != len(self.pq[name]):
                    self.viol("C12", "C12/pq-length", "%s: length %d, model holds %d objects"
                              % (name, self.lib_int(name + ".n"), len(self.pq[name])))
        for p in self.procs:
            st = self.lib.get("p%d.st" % p.pid)
            if st is not None and st != p.status:
                self.viol("C09", "C09/status", "p%d: library status %s, model %s" % (p.pid, st, p.status))
            if p.status == "F" and p.ended is not None:
                xv = self.lib.get("p%d.xv" % p.pid)
                if xv is not None and int(xv) != p.ended[1] and st == "F":
                    self.viol("C09", "C09/exit-value/%s" % p.ended[0], "p%d: exit value %s, expected %d (%s)"
                              % (p.pid, xv, p.ended[1], p.ended[0]))
                ev = self.lib_int("p%d.ev" % p.pid)
                if ev != p.start_pending:
                    self.viol("C09", "C09/events-after-end", "p%d ended (%s) but %d events with it as subject "
                              "are still scheduled (expected %d)" % (p.pid, p.ended[0], ev, p.start_pending))

    # --------------------------------------------------------- instants --
    def value_of(self, name, kind):
        if kind in ("res", "pool"):
            return self.lib_int(name + ".u")
        if kind == "buf":
            return self.lib_int(name + ".l")
        return self.lib_int(name + ".n")

    def end_of_instant(self, final):
        T = self.time
        state = {}
        for name, (kind, cap) in self.sc.objs.items():
            if kind != "cond":
                state[name] = self.value_of(name, kind)
        self.inst_state.append((T, state))
        for p in self.procs:
            if not self.alive(p):
                continue
            # C04 rule 4: mandatory notifications due in this instant
            for n in p.notes:
                if n.mandatory and not n.delivered and not n.dead and n.due == T:
                    if n.kind == "timer":
                        self.viol("C04", "C04/timer-not-delivered",
                                  "timer (signal %d) of p%d was armed for this instant and neither fired nor was "
                                  "cancelled; the process was not interrupted, preempted or ended" % (n.value, p.pid))
                    elif n.kind == "poolpreempt":
                        self.viol("C07", "C07/victim-not-notified",
                                  "p%d lost its units of %s to a preemption but was not resumed with PREEMPTED in "
                                  "that instant" % (p.pid, n.src))
                    elif n.kind == "ccancel":
                        self.viol("C13", "C13/cancel-not-delivered",
                                  "p%d was cancelled from %s but did not return CANCELLED in that instant" % (p.pid, n.src))
                    elif n.kind == "procend":
                        self.viol("C09", "C09/waiter-not-notified",
                                  "p%d waited for p%s which was stopped in this instant, but was not resumed" % (p.pid, n.src))
                    n.dead = True
            cur = p.cur
            if cur is None:
                continue
            # C13: obligations of this instant
            if cur.name == "cwait" and cur.oblig is not None and cur.oblig[0] == T and not cur.removed:
                self.viol("C13", "C13/satisfied-waiter-not-resumed/%s" % cur.oblig[1],
                          "p%d waits on %s with a predicate that was true when the condition was signalled (%s) "
                          "but was not resumed in that instant" % (p.pid, cur.obj, cur.oblig[1]))
                if cur.oblig[1] == "after-drop":
                    self.viol("C09", "C09/holdings-not-offered-to-waiters/cond",
                              "p%d waits on %s (subscribed to what a process held when it ended in this instant) with a "
                              "predicate that the release made true, but was not resumed" % (p.pid, cur.obj))
                cur.oblig = None
            # C09: waiter of a process that ended in this instant
            if cur.completion is not None and cur.completion[0] == "procend" and cur.completion[1] == T:
                self.viol("C09", "C09/waiter-not-resumed",
                          "p%d waits for p%d which ended in this instant but was not resumed" % (p.pid, cur.args[0]))
                cur.completion = None
            if cur.completion is not None and cur.completion[0] == "ev" and cur.completion[1] == T:
                self.viol("C04", "C04/event-waiter-not-resumed",
                          "p%d waits for user event %s which %s in this instant but was not resumed"
                          % (p.pid, cur.args[0], cur.completion[2]))
                cur.completion = None
            # C04 rule 5: a hold whose time has come
            if cur.name == "hold" and cur.t + cur.args[0] <= T:
                self.viol("C04", "C04/hold-overdue", "p%d still suspended in hold(%s) started at %s"
                          % (p.pid, cur.args[0], cur.t))
            # C08: blocked although the demand can be met
            self.check_lost_wakeup(p, cur, final)

    def check_lost_wakeup(self, p, cur, final):
        nm = cur.name
        o = cur.obj
        why = None
        if nm in ("acquire", "preempt"):
            if self.lib_int(o + ".a") > 0:
                why = "resource %s is free" % o
        elif nm in ("pacq", "ppre"):
            if self.lib_int(o + ".a") > 0:
                why = "pool %s has %d units available" % (o, self.lib_int(o + ".a"))
        elif nm == "bget":
            if self.lib_int(o + ".l") > 0:
                why = "buffer %s has level %d" % (o, self.lib_int(o + ".l"))
        elif nm == "bput":
            if self.lib_int(o + ".s") > 0:
                why = "buffer %s has space %d" % (o, self.lib_int(o + ".s"))
        elif nm in ("oget", "kget"):
            if self.lib_int(o + ".n") > 0:
                why = "queue %s has length %d" % (o, self.lib_int(o + ".n"))
        elif nm in ("oput", "kput"):
            if self.lib_int(o + ".s") > 0:
                why = "queue %s has space %d" % (o, self.lib_int(o + ".s"))
        if why is not None:
            kind = self.sc.objs[o][0]
            self.viol("C08", "C08/blocked-%s-%s/%s" % (kind, "put" if GUARD_OF_OP.get(nm) == 1 else "get-or-acquire",
                                                      "quiescence" if final else "end-of-instant"),
                      "p%d is still blocked in %s(%s) although %s" % (p.pid, nm, o, why))
            if o in self.dropped_at.get(self.time, ()):
                self.viol("C09", "C09/holdings-not-offered-to-waiters/%s" % kind,
                          "a process that held %s ended in this instant, but p%d is still blocked in %s(%s) although %s"
                          % (o, p.pid, nm, o, why))

    def on_quiescence(self, t):
        self.advance(fx(t[2]))
        self.evno = int(t[1])
        self.end_of_instant(final=True)
        for p in self.procs:
            if not self.alive(p):
                continue
            for n in p.notes:
                if n.mandatory and not n.delivered and not n.dead and n.kind == "timer":
                    self.viol("C04", "C04/timer-lost", "the event queue is empty but the timer (signal %d, due %s) "
                              "of p%d never fired" % (n.value, n.due, p.pid))
            cur = p.cur
            if cur is None:
                continue
            if cur.name == "wait_proc":
                tg = self.procs[cur.args[0]]
                if tg.status == "F" and tg.ended is not None and tg.ended[3] > cur.seq:
                    self.viol("C04", "C04/suspended-after-awaited-ended",
                              "p%d is still waiting for p%d which has ended" % (p.pid, tg.pid))
            if cur.name == "wait_ev":
                u = self.uev.get(cur.args[0])
                if u is not None and u["state"] != "pending":
                    self.viol("C04", "C04/suspended-after-event", "p%d is still waiting for user event %d which was %s"
                              % (p.pid, cur.args[0], u["state"]))
        self.done = True

    # ------------------------------------------------------------ records --
    def on_P(self, t):
        pass

    def on_T(self, t):
        self.cls("forwarded-signal")

    def on_L(self, t):
        pass

    def on_U(self, t):
        k = int(t[4])
        u = self.uev.setdefault(k, {"state": "pending"})
        if u["state"] != "pending":
            self.viol("C01", "C01/user-event-ran-again", "user event %d executed although it was %s" % (k, u["state"]))
        elif "time" in u and u["time"] != self.time:
            self.viol("C01", "C01/user-event-at-wrong-time", "user event %d scheduled for %r ran with the clock at %r"
                      % (k, u["time"], self.time))
        u["state"] = "executed"
        for p in self.procs:
            if self.alive(p) and p.cur is not None and p.cur.name == "wait_ev" and p.cur.args[0] == k:
                p.cur.completion = ("ev", self.time, "executed")

    def on_K(self, t):
        self.skips += 1
        reason = t[7] if len(t) > 7 else ""
        if reason in ("lost-without-notice", "library-says-held-but-never-acquired", "holding-disagrees"):
            pid = int(t[4])
            if pid >= 0 and reason != "library-says-held-but-never-acquired" and any(
                    (not n.delivered and not n.dead and n.kind in ("respreempt", "poolpreempt"))
                    for n in self.procs[pid].notes):
                # the preemption notice is still on its way to this process: nothing wrong yet
                self.cls("acted-before-preemption-notice")
            elif pid >= 0:
                fam = "C05" if t[6] in ("release",) else "C07"
                self.viol(fam, "%s/own-record-disagrees/%s" % (fam, reason),
                          "p%d: %s skipped because the process's own record and the library disagree (%s)"
                          % (pid, t[6], reason))

    def on_B(self, t):
        p = self.procs[int(t[4])]
        if p.status == "R":
            self.viol("C09", "C09/started-while-running", "p%d entered its function while running" % p.pid)
        if p.res or any(p.pool.values()):
            self.viol("C09", "C09/restart-with-holdings", "p%d (re)starts while the model still attributes holdings" % p.pid)
        if t[6] != "self=1" or t[7] != "ctx=1":
            self.viol("C09", "C09/start-arguments", "p%d did not receive its own handle / context: %s %s" % (p.pid, t[6], t[7]))
        if p.run > 0:
            self.cls("restart")
        p.status = "R"
        p.run += 1
        p.cur = None
        p.notes = []
        p.timers = {}
        p.res = set()
        p.pool = {}
        p.ended = None
        p.start_pending = max(0, p.start_pending - 1)

    def end_process(self, p, how, value):
        """Model effects of the end of p at the current instant."""
        T = self.time
        if p.res or any(p.pool.values()) or p.timers or p.cur is not None:
            self.cls("end-with-obligations")
        cur = p.cur
        if cur is not None and cur.name in ("bput", "bget"):
            # what it had transferred before it was ended stays transferred
            am = self.lib_int("p%d.am" % p.pid, cur.n if cur.name == "bput" else 0)
            self.level_done[cur.obj] += (cur.n - am) if cur.name == "bput" else -am
            if 0 < am < cur.n:
                self.cls("buffer-partial-transfer")
        for r in list(p.res):
            if self.holder.get(r) == p.pid:
                self.holder[r] = None
        # what it held must be offered to the waiters of those objects within this instant (C09)
        for ob in list(p.res) + [pl for pl, amt in p.pool.items() if amt > 0]:
            self.dropped_at.setdefault(T, set()).add(ob)
            self.dropped_seq[ob] = self.seq_now
        p.res = set()
        p.pool = {}
        for n in p.notes:
            n.dead = True
        p.timers = {}
        p.status = "F"
        p.ended = (how, value, T, self.seq_now)
        p.ends.append(p.ended)
        code = SUCCESS if how in ("return", "exit") else STOPPED
        nw = 0
        for w in self.procs:
            if w is not p and self.alive(w) and w.cur is not None and w.cur.name == "wait_proc" \
                    and w.cur.args[0] == p.pid and w.cur.completion is None:
                w.cur.completion = ("procend", T, code)
                nw += 1
                if code == STOPPED:
                    self.note(w, "procend", STOPPED, T, mandatory=False, src=str(p.pid))
        if nw:
            self.cls("end-with-waiters")
        p.cur = None

    def on_Z(self, t):
        p = self.procs[int(t[4])]
        self.seq_now = int(t[1])
        self.check_alive_record(p, "Z")
        self.end_process(p, t[5], int(t[6]))

    def check_alive_record(self, p, what):
        if p.status != "R":
            self.viol("C09", "C09/executes-after-end", "p%d produced a %s record although it has ended (%s)"
                      % (p.pid, what, p.ended[0] if p.ended else "never started"))

    # .............................................................. calls --
    def on_C(self, t):
        self.seq_now = int(t[1])
        pid, opi, name = int(t[4]), int(t[5]), t[6]
        p = self.procs[pid]
        self.check_alive_record(p, "call")
        self.ops += 1
        args = t[7:]
        if name in BLOCKING:
            c = Call(name, args, self.time, self.evno, self.seq_now, opi)
            c.prio_at_call = p.prio
            if name == "hold":
                c.args = [fx(args[0])]
            elif name in ("acquire", "preempt"):
                c.obj = args[0]
            elif name in ("pacq", "ppre"):
                c.obj = args[0]
                c.n = int(args[1])
                c.base = p.pool.get(c.obj, 0)
                c.base0 = c.base
                if name == "ppre":
                    self.ppre_in_event.setdefault(c.obj, []).append((pid, p.prio))
                if c.base > 0:
                    self.cls("pool-top-up")
            elif name in ("bput", "bget"):
                c.obj = args[0]
                c.n = int(args[1])
                self.lib["p%d.am" % pid] = str(c.n if name == "bput" else 0)
            elif name in ("oput", "oget", "kput", "kget"):
                c.obj = args[0]
                c.args = args
            elif name == "cwait":
                c.obj = args[0]
            elif name == "wait_proc":
                c.args = [int(args[0])]
                st = int(args[1].split("=")[1])
                if st == 2:
                    c.completion = ("already-finished", self.time, SUCCESS)
            elif name == "wait_ev":
                c.args = [int(args[0])]
            c.side = GUARD_OF_OP.get(name, 0)
            if name in GUARD_OF_OP:
                self.arrivals.setdefault((c.obj, c.side), []).append((self.seq_now, pid))
            p.cur = c
        else:
            self.nonblocking(p, name, args)

    def on_X(self, t):
        self.seq_now = int(t[1])
        name = t[6]
        self.nonblocking(None, name, t[7:])

    def nonblocking(self, p, name, a):
        T = self.time
        if name == "release":
            r = a[0]
            if self.holder.get(r) != p.pid:
                # (trusting scenarios) a victim of a preemption whose notice never reached it - an interrupt
                # overtook and cancelled it - releases what it believes it holds. The call must change
                # nothing; what the library makes of it shows in the holder comparison after the event.
                self.cls("release-by-unnotified-victim")
            else:
                self.holder[r] = None
            p.res.discard(r)
        elif name == "prel":
            pl, n = a[0], int(a[1])
            if p.pool.get(pl, 0) < n:
                self.cls("prel-by-unnotified-victim")      # as above: gives back at most what it still holds
            p.pool[pl] = max(0, p.pool.get(pl, 0) - n)
        elif name in ("ftimer_add", "ftimer_cancel", "ftimers_clear"):
            # the same operations on the timers of another process
            self.cls("foreign-" + name[1:])
            tg = self.procs[int(a[0])]
            if tg.cur is not None:
                self.cls("foreign-" + name[1:] + "-on-blocked-target")
            return self.nonblocking(tg, name[1:], a[1:])
        elif name in ("cunsub", "csub"):
            nm, sd = a[1].split(".")
            key = (a[0], nm, int(sd))
            if name == "cunsub":
                want = 1 if self.link_active.get(key) else 0
                if int(a[3]) != want:
                    self.viol("C13", "C13/unsubscribe-result", "unsubscribe(%s, %s) returned %s, the condition was %ssubscribed"
                              % (a[0], a[1], a[3], "" if want else "not "))
                self.link_active[key] = False
                self.cls("cond-unsubscribe" + ("" if want else "-not-subscribed"))
            else:
                self.link_active[key] = True
                self.cls("cond-resubscribe")
        elif name in ("timer_add", "timer_set"):
            d, sig, h = fx(a[0]), int(a[1]), int(a[3])
            if name == "timer_set":
                for n in p.timers.values():
                    n.dead = True
                p.timers = {}
            n = self.note(p, "timer", sig, T + d, mandatory=True, handle=h)
            p.timers[h] = n
            self.cls("timer")
        elif name == "timer_cancel":
            h, r = int(a[0]), int(a[2])
            n = p.timers.get(h)
            want = 1 if (n is not None and not n.delivered and not n.dead) else 0
            if n is not None and not n.mandatory and not n.delivered and not n.dead:
                want = r           # an optional (voided) timer may or may not still be scheduled
            if r == 0 and want == 1 and self.ppre_in_event and any(v > 0 for v in p.pool.values()):
                # a pool preemption earlier in this event may have robbed p (known only at the snapshot)
                self.cls("timer-cancel-after-possible-robbery")
                want = 0
            if r != want:
                self.viol("C04", "C04/timer-cancel-result", "p%d: timer_cancel(%d) returned %d, expected %d" % (p.pid, h, r, want))
            if n is not None:
                n.dead = True
                p.timers.pop(h, None)
        elif name == "timers_clear":
            for n in p.timers.values():
                n.dead = True
            p.timers = {}
        elif name == "interrupt":
            tg = self.procs[int(a[0])]
            self.note(tg, "interrupt", int(a[1]), T, src=(p.pid if p else -1))
            self.cls("interrupt")
        elif name == "resume":
            tg = self.procs[int(a[0])]
            self.note(tg, "resume", int(a[1]), T)
            self.cls("resume")
        elif name == "stop":
            tg = self.procs[int(a[0])]
            running = a[2] == "running=1"
            if running:
                if tg.status != "R":
                    self.viol("C09", "C09/status", "stop found p%d running, model says %s" % (tg.pid, tg.status))
                self.cls("stop-self" if (p is not None and tg is p) else "stop-other")
                self.end_process(tg, "stop", int(a[1]))
        elif name == "setprio":
            tg = self.procs[int(a[0])]
            tg.prio = int(a[1])
            tg.prio_changed_at = T
            if tg.cur is not None and tg.status == "R":
                self.cls("reprioritised-waiter")
        elif name == "start":
            tg = self.procs[int(a[0])]
            tg.start_pending += 1
        elif name == "usched":
            self.uev[int(a[0])] = {"state": "pending", "time": fx(a[1])}
        elif name == "ucancel":
            k, r = int(a[0]), int(a[2])
            u = self.uev.setdefault(k, {"state": "pending"})
            want = 1 if u["state"] == "pending" else 0
            if r != want:
                self.viol("C04", "C04/user-event-cancel", "cancel of user event %d returned %d, expected %d" % (k, r, want))
            if r:
                u["state"] = "cancelled"
                for w in self.procs:
                    if self.alive(w) and w.cur is not None and w.cur.name == "wait_ev" and w.cur.args[0] == k:
                        w.cur.completion = ("ev", T, "cancelled")
                        self.note(w, "evcancel", CANCELLED, T)
        elif name == "uresched":
            self.uev.setdefault(int(a[0]), {"state": "pending"})["time"] = fx(a[1])
        elif name in ("rec_on", "rec_off"):
            ob = a[0]
            n = int(a[1].split("=")[1])
            val = fx(a[2].split("=")[1])
            w = self.rec.setdefault(ob, [])
            if name == "rec_on":
                w.append(dict(on_t=T, on_n=n, on_val=val, off_t=None, off_n=None, off_val=None,
                              on_ev=self.evno, off_ev=None))
            elif w and w[-1]["off_t"] is None:
                w[-1].update(off_t=T, off_n=n, off_val=val, off_ev=self.evno)
            self.cls("recording-switch")
        elif name == "kcancel":
            q, h, r = a[0], int(a[1]), int(a[3])
            want = 1 if h in self.pq[q] else 0
            if r != want:
                self.viol("C12", "C12/pq-cancel-result", "%s: cancel(%d) returned %d, expected %d" % (q, h, r, want))
            if h in self.pq[q]:
                self.pq_cancelled[q].append(self.pq[q].pop(h))
                self.cls("pq-cancel")
        elif name == "kreprio":
            q, h, pr = a[0], int(a[1]), int(a[2])
            if h in self.pq[q]:
                self.pq[q][h] = (self.pq[q][h][0], pr, self.pq[q][h][2])
                self.cls("pq-reprio")
        elif name == "kpos":
            q, h, r = a[0], int(a[1]), int(a[3])
            want = 0
            if h in self.pq[q]:
                v, pr, sq = self.pq[q][h]
                want = 1 + sum(1 for hh, (vv, pp, ss) in self.pq[q].items()
                               if hh != h and (pp > pr or (pp == pr and ss < sq)))
            if r != want:
                self.viol("C12", "C12/pq-position", "%s: position(%d) returned %d, expected %d" % (q, h, r, want))
        elif name == "opos":
            q, v, r = a[0], int(a[1]), int(a[3])
            want = (self.oq[q].index(v) + 1) if v in self.oq[q] else 0
            if r != want:
                self.viol("C12", "C12/oq-position", "%s: position(%d) returned %d, expected %d" % (q, v, r, want))
        elif name == "ccancel":
            c, tg, r = a[0], self.procs[int(a[1])], int(a[3])
            waiting = self.alive(tg) and tg.cur is not None and tg.cur.name == "cwait" and tg.cur.obj == c \
                and not tg.cur.removed and tg.cur.evno < self.evno
            already = any(n.kind == "ccancel" and not n.delivered and not n.dead for n in tg.notes)
            if already:
                waiting = False
            if waiting and r != 1 and self.detached(tg):
                self.cls("cond-cancel-of-robbed-waiter")
                waiting = False
            if waiting and not self.grant_pending(tg) and r != 1:
                self.viol("C13", "C13/cancel-result", "cancel(%s, p%d) returned %d although it is waiting there" % (c, tg.pid, r))
            if not waiting and r != 0 and not already:
                self.viol("C13", "C13/cancel-result", "cancel(%s, p%d) returned %d although it is not waiting there" % (c, tg.pid, r))
            if r == 1 and waiting:
                self.note(tg, "ccancel", CANCELLED, T, mandatory=True, src=c)
                tg.cur.oblig = None
                self.cls("cond-cancel")
        elif name == "cremove":
            c, tg, r = a[0], self.procs[int(a[1])], int(a[3])
            waiting = self.alive(tg) and tg.cur is not None and tg.cur.name == "cwait" and tg.cur.obj == c \
                and not tg.cur.removed and tg.cur.evno < self.evno
            already = any(n.kind == "ccancel" and not n.delivered and not n.dead for n in tg.notes)
            if already:
                waiting = False
            if waiting and r != 1 and self.detached(tg):
                self.cls("cond-remove-of-robbed-waiter")
                waiting = False
            if waiting and not self.grant_pending(tg) and r != 1:
                self.viol("C13", "C13/remove-result", "remove(%s, p%d) returned %d although it is waiting there" % (c, tg.pid, r))
            if not waiting and r != 0 and not already:
                self.viol("C13", "C13/remove-result", "remove(%s, p%d) returned %d although it is not waiting there" % (c, tg.pid, r))
            if r == 1 and waiting:
                tg.cur.removed = True
                tg.cur.oblig = None
                self.cls("cond-remove")
        elif name == "csignal":
            self.cls("cond-explicit-signal")

    def detached(self, p):
        """Has p been robbed by a preemption in this instant without having heard of it yet? The library takes
        a victim out of every waiting list at the moment of the preemption (its PREEMPTED wake-up follows)."""
        if any(n.kind in ("respreempt", "poolpreempt") and not n.delivered and not n.dead and n.due == self.time
               for n in p.notes):
            return True
        # a pool preemption earlier in this very event is only known at the snapshot
        return bool(self.ppre_in_event) and any(v > 0 for v in p.pool.values())

    def grant_pending(self, p):
        """Was p told (by a ground-truth record of this instant) that it will be woken?"""
        c = p.cur
        return c is not None and c.oblig is not None and c.oblig[0] == self.time

    # ....................................................... ground truth --
    def on_G(self, t):
        cond, why = t[4], t[5]
        T = self.time
        if why.startswith("after-"):
            # only sound where the library signals exactly that guard: release -> the (only) guard;
            # put -> front (getters); get -> rear (putters). The condition must observe that guard.
            return self.on_G_after(t)
        sat = [int(x.split(":")[0]) for x in t[7:] if x.endswith(":1")]
        uns = [int(x.split(":")[0]) for x in t[7:] if x.endswith(":0")]
        if sat and uns:
            self.cls("cond-mixed-outcomes")
        if why == "tap":
            self.cls("cond-forwarded-signal")
        for pid in sat:
            p = self.procs[pid]
            c = p.cur
            if c is None or c.name != "cwait" or c.removed:
                continue
            if not c.sat_seen.get(T):
                c.sat_seen[T] = int(t[1])        # seq of the first signal of this instant that found it satisfied
            if c.oblig is None:
                c.oblig = (T, "explicit" if why == "explicit" else "forwarded")

    def on_G_after(self, t):
        cond, why, obj = t[4], t[5], t[6]
        T = self.time
        side_needed = {"after-release": 0, "after-put": 0, "after-get": 1, "after-drop": 0}[why]
        ok = False
        for (c, o, s) in self.sc.links:
            if c == cond and s == side_needed and o == obj and self.link_active.get((c, o, s)):
                ok = True
        if not ok:
            return
        for x in t[7:]:
            pid, v = x.split(":")
            if v != "1":
                continue
            c = self.procs[int(pid)].cur
            if c is None or c.name != "cwait" or c.removed:
                continue
            if why == "after-drop":
                # the truth was taken at the end of the event in which the holder ended; it is also the truth
                # at the signal of that drop only for a predicate about the dropped object itself
                objnames = list(self.sc.objs)
                if not (c.args[1:2] and c.args[1] in ("3", "4") and int(c.args[2]) < len(objnames)
                        and objnames[int(c.args[2])] == obj):
                    continue
                if c.seq > self.dropped_seq.get(obj, -1):
                    continue        # started waiting after the drop (later in the same event): it saw no signal
                self.cls("cond-satisfied-by-drop-at-process-end")
            if not c.sat_seen.get(T):
                c.sat_seen[T] = int(t[1])
            if c.oblig is None:
                c.oblig = (T, "after-drop" if why == "after-drop" else "after-op")

    # ............................................................ returns --
    def justify(self, p, sig):
        """C04 rule 2: a non-SUCCESS return needs exactly one undelivered notification."""
        T = self.time
        cands = [n for n in p.notes if not n.delivered and not n.dead and n.value == sig and n.due == T]
        if not cands:
            late = [n for n in p.notes if not n.delivered and not n.dead and n.value == sig]
            detail = ""
            if late:
                detail = " (a notification with that value exists but is due at %s)" % late[0].due
            self.viol("C04", "C04/unjustified-return/%s" % (p.cur.name if p.cur else "?"),
                      "p%d: %s returned %d but no undelivered interrupt, timer, preemption, cancellation or stop "
                      "notification with that value is due now%s" % (p.pid, p.cur.name if p.cur else "?", sig, detail))
            return None
        # If the value could come from an interrupt / preemption as well as from something else, assume
        # the interrupt (its delivery voids the others, so nothing is demanded that may not hold);
        # otherwise prefer a mandatory one so that obligations are discharged.
        voiding = [n for n in cands if n.kind in ("interrupt", "poolpreempt", "respreempt")]
        if voiding and len(cands) > len(voiding):
            self.cls("ambiguous-notification-value")
        cands.sort(key=lambda n: (n.kind not in ("interrupt", "poolpreempt", "respreempt"), not n.mandatory))
        n = cands[0]
        n.delivered = True
        if n.handle is not None:
            p.timers.pop(n.handle, None)
        if n.kind in ("interrupt", "poolpreempt", "respreempt"):
            # everything addressed to p before is no longer guaranteed (may still come once)
            for m in p.notes:
                if m is not n and not m.delivered and not m.dead:
                    m.mandatory = False
            self.cls("delivered-" + n.kind)
        if n.kind == "timer":
            self.cls("timeout-delivered")
            if p.cur is not None and p.cur.name not in ("hold", "yield"):
                self.cls("wait-ended-by-timeout")
        return n

    def on_R(self, t):
        self.seq_now = int(t[1])
        pid, opi, ret = int(t[4]), int(t[5]), int(t[6])
        if pid < 0:
            return
        p = self.procs[pid]
        c = p.cur
        if c is None or c.opi != opi:
            if len(t) == 7 and c is None:
                return      # result line of a non-blocking csignal
            if c is None:
                self.check_alive_record(p, "return")
                return
            return
        self.check_alive_record(p, "return")
        T = self.time
        blocked = c.evno != self.evno
        outs = t[7:]
        nm = c.name
        if blocked:
            self.cls("blocked-" + nm)
        note = None
        if ret != SUCCESS:
            note = self.justify(p, ret)
            self.cls("nonsuccess-" + nm)
        getattr(self, "ret_" + nm)(p, c, ret, outs, blocked, note)
        # notifications that belong to this wait (its cancellation, the end of what it awaited) die with it
        for n in p.notes:
            if not n.delivered and n.kind in ("ccancel", "procend", "evcancel"):
                n.dead = True
        p.cur = None

    # each ret_* applies the model effects and the per-op oracles
    def ret_hold(self, p, c, ret, outs, blocked, note):
        if ret == SUCCESS:
            want = c.t + c.args[0]
            if self.time != want:
                self.viol("C04", "C04/hold-wrong-time", "p%d: hold(%s) started at %s returned SUCCESS at %s, expected %s"
                          % (p.pid, c.args[0], c.t, self.time, want))

    def ret_yield(self, p, c, ret, outs, blocked, note):
        if ret == SUCCESS:
            self.justify_success_by_note(p, c, "resume")

    def justify_success_by_note(self, p, c, kind):
        T = self.time
        for n in p.notes:
            if n.kind == kind and not n.delivered and not n.dead and n.value == SUCCESS and n.due == T:
                n.delivered = True
                return True
        self.viol("C04", "C04/unjustified-success/%s" % c.name,
                  "p%d: %s returned SUCCESS although nothing it waits for happened now" % (p.pid, c.name))
        return False

    def serve_order_check(self, p, c):
        """C06: W=p was served on guard (c.obj, c.side) now; nobody it must not overtake may still wait."""
        T = self.time
        if p.prio_changed_at == T:
            self.cls("c06-skipped-priority-change")
            return
        waiting = []
        for v in self.procs:
            vc = v.cur
            if v is p or not self.alive(v) or vc is None or vc.obj != c.obj or vc.side != c.side:
                continue
            if vc.name not in GUARD_OF_OP or (vc.name == "cwait") != (c.name == "cwait"):
                continue
            if not (vc.evno < self.evno):
                continue
            waiting.append(v)
        if len(waiting) >= 2:
            self.cls("c06-three-waiters")
        for v in waiting:
            vc = v.cur
            if v.prio_changed_at == T:
                self.cls("c06-skipped-priority-change")
                continue
            if vc.removed:
                continue
            if any((not n.delivered and not n.dead and n.due == T and n.kind in ("ccancel", "poolpreempt"))
                   for n in v.notes):
                continue            # v has already been taken out of the list, its wake-up is on its way
            if c.name == "cwait" and not (vc.sat_seen.get(T) and c.sat_seen.get(T)
                                          and vc.sat_seen[T] <= c.sat_seen[T]):
                continue            # v was not found satisfied by the signal that woke p (or an earlier one)
            if v.prio > p.prio:
                if not (vc.t < T):
                    continue        # arrived in this very instant: the grant to p may have been made before
                self.viol("C06", "C06/lower-priority-served-first",
                          "p%d (priority %d, waiting since %s) was served on %s while p%d (priority %d, waiting since %s) "
                          "is still waiting" % (p.pid, p.prio, c.t, c.obj, v.pid, v.prio, vc.t))
            elif v.prio == p.prio and (vc.t < c.t or (vc.t == c.t and vc.seq < c.seq)):
                # Equal priorities are ordered by when they started waiting (within one instant: in the order
                # of their calls). From outside we cannot see a waiter that was woken in its turn and went
                # back to the end of the line because (a) its request needs several helpings (visible as
                # partial progress), or (b) what it had been woken for was gone when it ran (a third process
                # took it, or the library rang twice for one unit). Such a waiter had an event scheduled for it
                # after p arrived; only judge when that, and partial progress, can be ruled out.
                if vc.progress_t is not None and vc.progress_t >= c.evno:
                    self.cls("c06-skipped-partial-progress")
                    continue
                if c.name != "cwait" and v.ev_pos_ev >= c.evno:
                    self.cls("c06-skipped-possibly-woken")
                    continue
                if c.name != "cwait" and any(sq > c.seq and pid not in (p.pid, v.pid)
                                             for (sq, pid) in self.arrivals.get((c.obj, c.side), ())):
                    self.cls("c06-skipped-third-arrival")
                    continue
                same = vc.t == c.t
                self.cls("c06-fifo-judged-same-instant" if same else "c06-fifo-judged")
                self.viol("C06", "C06/later-arrival-served-first/%s%s" % (self.sc.objs[c.obj][0], "/same-instant" if same else ""),
                          "p%d (priority %d, waiting since %s, call #%d) was served on %s while p%d (same priority, waiting "
                          "since %s, call #%d) is still waiting" % (p.pid, p.prio, c.t, c.seq, c.obj, v.pid, vc.t, vc.seq))

    def void_timers(self, victim):
        """'timers ... stay armed until ... the process is interrupted, preempted or ends': the library clears
        them at the moment of the preemption, the victim hears of it later in the instant"""
        for n in victim.notes:
            if not n.delivered and not n.dead and n.kind != "respreempt" and n.kind != "poolpreempt":
                n.mandatory = False

    def ret_acquire(self, p, c, ret, outs, blocked, note):
        r = c.obj
        if ret == SUCCESS:
            h = self.holder.get(r)
            if h is not None and h != p.pid:
                hp = self.procs[h]
                if c.name == "preempt" and not blocked:
                    # eviction: the previous holder loses the resource and is told so
                    hp.res.discard(r)
                    self.note(hp, "respreempt", PREEMPTED, self.time, src=r)
                    self.void_timers(hp)
                    self.cls("resource-preempted")
                else:
                    self.viol("C05", "C05/two-holders/%s" % ("after-wait" if blocked else "immediate"),
                              "p%d: %s(%s) returned SUCCESS while p%d holds it (acquired earlier, not released, "
                              "not preempted, not ended)" % (p.pid, c.name, r, h))
            self.holder[r] = p.pid
            p.res.add(r)
            if blocked:
                self.cls("resource-contended")
                self.serve_order_check(p, c)
        elif ret == PREEMPTED and note is not None and note.kind == "respreempt":
            pass

    ret_preempt = ret_acquire

    def ret_pacq(self, p, c, ret, outs, blocked, note):
        pl = c.obj
        held_now = int(outs[0].split("=")[1])
        if c.name == "ppre":
            # it may have robbed somebody in this event before returning
            self.ppre_in_event.setdefault(pl, []).append((p.pid, p.prio))
        if ret == SUCCESS:
            # exactly n more than it held when it called, whatever happened in between
            want = c.base0 + c.n
            robbed_meanwhile = c.completion is not None and c.completion[0] == "preempted-from"
            p.pool[pl] = held_now
            if held_now != want:
                self.viol("C07", "C07/acquire-amount%s" % ("/after-robbery" if robbed_meanwhile else ""),
                          "p%d: %s(%s, %d) returned SUCCESS, holds %d, expected %d%s"
                          % (p.pid, c.name, pl, c.n, held_now, want,
                             " (its holding was taken by a preemption while the call was in progress)"
                             if robbed_meanwhile else ""))
            if blocked:
                self.cls("pool-waited")
                self.serve_order_check(p, c)
        else:
            # c.base is what it held when it called, lowered to what was left if a preemption took its
            # holding while this call was in progress. (A PREEMPTED notice may also be a late one, for a
            # robbery that happened before this call; what the process acquired since then is its own.)
            robbed = c.completion is not None and c.completion[0] == "preempted-from"
            want = c.base
            if blocked:
                self.cls("pool-acquire-cut-short")
            if held_now != want:
                self.viol("C07", "C07/rollback/%s" % ("preempted-elsewhere" if ret == PREEMPTED else "interrupted"),
                          "p%d: %s(%s, %d) returned %d, now holds %d, held %d before the call%s"
                          % (p.pid, c.name, pl, c.n, ret, held_now, c.base0,
                             " (and was robbed of everything while it waited)" if robbed else ""))
            p.pool[pl] = held_now

    ret_ppre = ret_pacq

    def ret_bput(self, p, c, ret, outs, blocked, note):
        b = c.obj
        out = int(outs[0])
        moved = (c.n - out) if c.name == "bput" else out
        if ret == SUCCESS and moved != c.n:
            self.viol("C11", "C11/success-amount", "p%d: %s(%s, %d) returned SUCCESS but reports %d transferred"
                      % (p.pid, c.name, b, c.n, moved))
        if moved < 0 or moved > c.n:
            self.viol("C11", "C11/reported-amount-range", "p%d: %s(%s, %d) reports %d transferred" % (p.pid, c.name, b, c.n, moved))
        self.level_done[b] += moved if c.name == "bput" else -moved
        if ret != SUCCESS and 0 < moved:
            self.cls("buffer-partial-transfer")
        if c.n > self.sc.objs[b][1]:
            self.cls("buffer-amount-above-capacity")
        if blocked and ret == SUCCESS:
            self.serve_order_check(p, c)
        self._last_obj = b

    ret_bget = ret_bput

    def ret_oput(self, p, c, ret, outs, blocked, note):
        q = c.obj
        if ret == SUCCESS:
            self.oq[q].append(int(c.args[1]))
            if blocked:
                self.serve_order_check(p, c)
        self._last_obj = q

    def ret_oget(self, p, c, ret, outs, blocked, note):
        q = c.obj
        got = int(outs[0])
        if ret == SUCCESS:
            if not self.oq[q]:
                self.viol("C12", "C12/oq-invented", "p%d: get(%s) delivered %d but the model queue is empty" % (p.pid, q, got))
            else:
                want = self.oq[q][0]
                if got != want:
                    if got in self.oq[q]:
                        self.viol("C12", "C12/oq-order", "p%d: get(%s) delivered %d, the oldest queued object is %d"
                                  % (p.pid, q, got, want))
                        self.oq[q].remove(got)
                    else:
                        self.viol("C12", "C12/oq-invented", "p%d: get(%s) delivered %d which is not queued" % (p.pid, q, got))
                else:
                    self.oq[q].pop(0)
            if blocked:
                self.serve_order_check(p, c)
        elif got != 0:
            self.viol("C12", "C12/get-failed-but-delivered", "p%d: get(%s) returned %d and delivered %d" % (p.pid, q, ret, got))
        self._last_obj = q

    def ret_kput(self, p, c, ret, outs, blocked, note):
        q = c.obj
        h = int(outs[0])
        if ret == SUCCESS:
            if h == 0 or h in self.pq[q]:
                self.viol("C12", "C12/pq-handle", "p%d: put(%s) returned handle %d" % (p.pid, q, h))
            self.pq_seq += 1       # "equal priorities in put order": the order of the successful put returns
            self.pq[q][h] = (int(c.args[1]), _ival(c.args[2]), self.pq_seq)
            if blocked:
                self.serve_order_check(p, c)
        self._last_obj = q

    def ret_kget(self, p, c, ret, outs, blocked, note):
        q = c.obj
        got = int(outs[0])
        if ret == SUCCESS:
            m = self.pq[q]
            if not m:
                self.viol("C12", "C12/pq-invented", "p%d: get(%s) delivered %d but the model queue is empty" % (p.pid, q, got))
            else:
                best = min(m.items(), key=lambda kv: (-kv[1][1], kv[1][2]))
                if got != best[1][0]:
                    cand = [h for h, (v, pr, sq) in m.items() if v == got]
                    if cand:
                        self.viol("C12", "C12/pq-order", "p%d: get(%s) delivered %d, but %d (priority %d, handle %d) goes first"
                                  % (p.pid, q, got, best[1][0], best[1][1], best[0]))
                        del m[min(cand)]
                    else:
                        self.viol("C12", "C12/pq-invented", "p%d: get(%s) delivered %d which is not queued" % (p.pid, q, got))
                else:
                    del m[best[0]]
            if blocked:
                self.serve_order_check(p, c)
        elif got != 0:
            self.viol("C12", "C12/get-failed-but-delivered", "p%d: get(%s) returned %d and delivered %d" % (p.pid, q, ret, got))
        self._last_obj = q

    def ret_cwait(self, p, c, ret, outs, blocked, note):
        T = self.time
        if ret == SUCCESS:
            if c.removed:
                self.viol("C13", "C13/removed-waiter-woken", "p%d was removed from %s but returned SUCCESS from its wait" % (p.pid, c.obj))
            elif not c.sat_seen.get(T):
                self.viol("C13", "C13/woken-with-false-predicate",
                          "p%d returned SUCCESS from wait(%s) although its predicate was false at every signal of this "
                          "instant (or the condition was not signalled at all)" % (p.pid, c.obj))
            else:
                self.cls("cond-woken")
                self.serve_order_check(p, c)
        elif note is None and any(n.kind == "ccancel" and not n.delivered and not n.dead and n.due == T
                                  for n in p.notes):
            self.viol("C13", "C13/cancel-wrong-code",
                      "p%d was cancelled from %s and returned %d instead of CANCELLED (%d)" % (p.pid, c.obj, ret, CANCELLED))

    def ret_wait_proc(self, p, c, ret, outs, blocked, note):
        T = self.time
        tg = self.procs[c.args[0]]
        comp = c.completion
        if comp is not None and comp[0] == "procend" and comp[1] == T and ret in (SUCCESS, STOPPED) \
                and ret != comp[2] and not (ret == STOPPED and note is not None and note.kind != "procend"):
            self.viol("C09", "C09/waiter-wrong-code",
                      "p%d got %s from wait_process(p%d) although p%d %s" % (
                          p.pid, "STOPPED" if ret == STOPPED else "SUCCESS", tg.pid, tg.pid,
                          "ended normally" if comp[2] == SUCCESS else "was stopped"))
            c.completion = comp = None
        if ret == SUCCESS:
            if comp is None:
                self.viol("C04", "C04/unjustified-success/wait_proc",
                          "p%d: wait_process(p%d) returned SUCCESS although p%d has not ended since the wait began"
                          % (p.pid, tg.pid, tg.pid))
            elif comp[0] == "procend":
                if comp[1] != T:
                    self.viol("C09", "C09/waiter-late", "p%d was resumed at %s for the end of p%d at %s" % (p.pid, T, tg.pid, comp[1]))
                if comp[2] != SUCCESS:
                    self.viol("C09", "C09/waiter-wrong-code", "p%d got SUCCESS from wait_process(p%d) although p%d was stopped"
                              % (p.pid, tg.pid, tg.pid))
                    for n in p.notes:
                        if n.kind == "procend" and not n.delivered and n.src == str(tg.pid):
                            n.dead = True
        elif ret == STOPPED and note is not None and note.kind == "procend":
            if comp is not None and comp[0] == "procend" and comp[2] != STOPPED:
                self.viol("C09", "C09/waiter-wrong-code", "p%d got STOPPED although p%d ended normally" % (p.pid, tg.pid))
        if comp is not None and comp[0] == "procend" and ret not in (SUCCESS, STOPPED):
            self.cls("waiter-left-for-other-reason")

    def ret_wait_ev(self, p, c, ret, outs, blocked, note):
        T = self.time
        comp = c.completion
        if ret == SUCCESS:
            if comp is None or comp[0] != "ev" or comp[2] != "executed" or comp[1] != T:
                self.viol("C04", "C04/unjustified-success/wait_ev",
                          "p%d: wait_event(%d) returned SUCCESS although the event did not execute now" % (p.pid, c.args[0]))

    # ........................................................... histories --
    def on_history(self, t):
        name, n = t[1], int(t[2])
        xs = [fx(v) for v in t[3::2]]
        ts = [fx(v) for v in t[4::2]]
        self.hist = getattr(self, "hist", {})
        self.hist[name] = (xs, ts)
        kind = self.sc.objs[name][0]
        if any(ts[i] > ts[i + 1] for i in range(n - 1)):
            self.viol("C14", "C14/time-not-monotone/%s" % kind, "%s: history time stamps decrease" % name)
            return
        wins = self.rec.get(name, [])
        # end-of-instant values of this object
        inst = [(T, st.get(name)) for (T, st) in self.inst_state]
        for wi, w in enumerate(wins):
            lo = w["on_n"] - 1                       # index of the sample written by rec_on
            hi = (w["off_n"] - 1) if w["off_n"] is not None else n - 1
            if lo < 0 or hi >= n or lo > hi:
                self.viol("C14", "C14/sample-count/%s" % kind, "%s: window %d has samples %d..%d of %d" % (name, wi, lo, hi, n))
                continue
            sx, st_ = xs[lo:hi + 1], ts[lo:hi + 1]
            if st_[0] != w["on_t"] or sx[0] != w["on_val"]:
                self.viol("C14", "C14/first-sample/%s" % kind, "%s: recording switched on at %s with value %s, first sample (%s, %s)"
                          % (name, w["on_t"], w["on_val"], sx[0], st_[0]))
            t_end = w["off_t"] if w["off_t"] is not None else (self.inst_state[-1][0] if self.inst_state else w["on_t"])
            for (T, val) in inst:
                if T < w["on_t"] or T > t_end:
                    continue
                if w["off_t"] is not None and T == w["off_t"]:
                    val = w["off_val"]             # changes after the switch-off are not recorded
                    if w["off_t"] == w["on_t"]:
                        pass
                # value of the step function at T: last sample with t <= T
                step = None
                for i in range(len(sx)):
                    if st_[i] <= T:
                        step = sx[i]
                if step is None or step != float(val):      # the history stores doubles
                    self.viol("C14", "C14/history-differs/%s" % kind,
                              "%s: at t=%s the true value is %s but the recorded history gives %s (window %d)"
                              % (name, T, val, step, wi))
                    break
        # every change that is visible at an event boundary inside a window has its own sample:
        # the per-event trajectory must be a subsequence of the window's samples
        for wi, w in enumerate(wins):
            lo = w["on_n"] - 1
            hi = (w["off_n"] - 1) if w["off_n"] is not None else n - 1
            if lo < 0 or hi >= n or lo > hi:
                continue
            seg = list(zip(xs[lo:hi + 1], ts[lo:hi + 1]))
            want = [(float(v), T) for (T, v, ev) in self.traj.get(name, ())
                    if ev > w["on_ev"] and (w["off_ev"] is None or ev < w["off_ev"])]
            j = 0
            for (v, T) in want:
                while j < len(seg) and seg[j] != (v, T):
                    j += 1
                if j == len(seg):
                    self.viol("C14", "C14/change-without-sample/%s" % kind,
                              "%s: the value changed to %s at t=%s (visible after an event) but window %d of the history "
                              "has no sample (%s, %s) in sequence" % (name, v, T, wi, v, T))
                    break
                j += 1
        if len(wins) >= 2:
            self.cls("recording-several-windows")
        if n >= 4:
            self.cls("recording-rich-history")

    def on_mean(self, t):
        name, mean = t[1], fx(t[2])
        xs, ts = self.hist[name]
        num = Fraction(0)
        for i in range(len(xs) - 1):
            num += Fraction(xs[i]) * (Fraction(ts[i + 1]) - Fraction(ts[i]))
        den = Fraction(ts[-1]) - Fraction(ts[0])
        if den <= 0:
            return
        exact = num / den
        err = abs(Fraction(mean) - exact)
        tol = Fraction(1, 10 ** 12) * max(Fraction(1), abs(exact))
        if err > tol:
            self.viol("C14", "C14/time-average/%s" % self.sc.objs[name][0],
                      "%s: time-weighted mean %r, exact time average of the recorded history %s" % (name, mean, float(exact)))
        self.cls("recording-mean-checked")


def analyze(text, res):
    o = SimOracle(text, res)
    o._last_obj = None
    o.seq_now = 0
    o.hist = {}
    return o.run()
