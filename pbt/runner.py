"""Generic driver: regressions -> generated search (16 Hypothesis workers) ->
extra engines -> confirmation of failures -> evidence file -> exit status.

A property module (pbt/props/cNN.py) provides
    ID, RULE, ASSUMPTIONS, BUDGET = {"quick": {...}, "thorough": {...}}
    VARIANTS = ("asan",)                 # build variants it needs
    strategy(tier)                       # Hypothesis strategy producing a case object
    serialize(case) -> str               # the replay file text
    evaluate(text, ctx) -> Outcome       # run against the real code and judge
and optionally
    extra(tier, ctx, seed, deadline) -> dict(evaluations=, coverage=, failures=[(text, sig, msg)])
    fixed_cases(tier) -> [text]          # deterministic cases always run (both tiers)
"""
import glob
import hashlib
import importlib
import json
import multiprocessing
import os
import sys
import time
import traceback

from . import build as buildmod
from .executor import Executor

VERIF = buildmod.VERIF
# where evidence and replay files go (mutation experiments redirect them away from /verif)
OUT = os.environ.get("VERIF_OUT", VERIF)
DEFAULT_SEED = 20260926
NWORKERS = int(os.environ.get("VERIF_WORKERS", "16"))


class Outcome(object):
    """Verdict on one case. ok=False needs sig (specific failure signature)."""
    __slots__ = ("ok", "sig", "msg", "nontrivial", "classes", "inconclusive", "detail")

    def __init__(self, ok=True, sig=None, msg="", nontrivial=False, classes=(),
                 inconclusive=False, detail=""):
        self.ok, self.sig, self.msg = ok, sig, msg
        self.nontrivial, self.classes = nontrivial, tuple(classes)
        self.inconclusive, self.detail = inconclusive, detail


class Ctx(object):
    """Per-process context: build dirs and lazily started executors."""

    def __init__(self, build_dirs, tier, prop_id):
        self.build_dirs = build_dirs
        self.tier = tier
        self.prop_id = prop_id
        self._ex = {}

    def executor(self, variant="asan", extra_env=None):
        key = (variant, tuple(sorted((extra_env or {}).items())))
        if key not in self._ex:
            self._ex[key] = Executor(self.build_dirs[variant], extra_env)
        return self._ex[key]

    def run(self, text, variant="asan", extra_env=None):
        ex = self.executor(variant, extra_env)
        try:
            return ex.run(text)
        except (IOError, OSError, ValueError):
            return ex.run(text)     # zygote restarted by Executor; one retry

    def close(self):
        for ex in self._ex.values():
            ex.close()
        self._ex = {}


def load_known():
    p = os.path.join(VERIF, "known_findings.json")
    if not os.path.exists(p):
        return {"open": [], "fixed": []}
    with open(p) as fh:
        return json.load(fh)


def known_open_for(prop_id):
    return [e for e in load_known().get("open", []) if e["property"] == prop_id]


def sig_is_known(sig, opens):
    for e in opens:
        if sig == e["signature"]:
            return e
    return None


def worker_seed(seed, prop_id, widx):
    h = hashlib.sha256(("%d:%s:%d" % (seed, prop_id, widx)).encode()).hexdigest()
    return int(h[:12], 16)


class Stats(object):
    def __init__(self):
        self.evaluations = 0
        self.nontrivial_digests = set()
        self.classes = {}
        self.known_hits = {}
        self.inconclusive = 0
        self.budget_cut = 0
        self.samples = []
        self.failure = None          # (text, sig, msg, detail)
        self.error = None
        self.unreproduced = []

    def record(self, text, out):
        self.evaluations += 1
        if out.inconclusive:
            self.inconclusive += 1
        for c in out.classes:
            self.classes[c] = self.classes.get(c, 0) + 1
        if out.nontrivial:
            d = hashlib.sha1(text.encode()).digest()[:8]
            if d not in self.nontrivial_digests:
                self.nontrivial_digests.add(d)
                if len(self.samples) < 2:
                    self.samples.append(text)


def _worker(args):
    prop_id, tier, seed, widx, n_examples, deadline, build_dirs = args
    import hypothesis
    from hypothesis import HealthCheck, Phase, given, settings
    from hypothesis import seed as hseed
    mod = importlib.import_module("pbt.props.%s" % prop_id.lower())
    # bound the time spent minimising a failure (default is 300 s per failure)
    import hypothesis.internal.conjecture.engine as _eng
    _eng.MAX_SHRINKING_SECONDS = 25 if tier == "quick" else 120
    ctx = Ctx(build_dirs, tier, prop_id)
    stats = Stats()
    opens = known_open_for(prop_id)
    if n_examples <= 0:
        return stats

    # after the deadline the remaining examples cost nothing to generate
    _cut = object()
    _base = mod.strategy(tier)

    @hypothesis.strategies.composite
    def _gated(draw):
        if stats.failure is None and time.time() > deadline:
            return _cut
        return draw(_base)

    @hseed(worker_seed(seed, prop_id, widx))
    @settings(max_examples=n_examples, database=None, deadline=None, derandomize=False,
              report_multiple_bugs=False,
              phases=(Phase.generate, Phase.target, Phase.shrink),
              suppress_health_check=[HealthCheck.too_slow, HealthCheck.data_too_large,
                                     HealthCheck.large_base_example],
              verbosity=hypothesis.Verbosity.quiet)
    @given(_gated())
    def test(case):
        if case is _cut or (stats.failure is None and time.time() > deadline):
            stats.budget_cut += 1
            return
        text = mod.serialize(case)
        out = mod.evaluate(text, ctx)
        stats.record(text, out)
        if not out.ok:
            e = sig_is_known(out.sig, opens)
            if e is not None:
                stats.known_hits[out.sig] = stats.known_hits.get(out.sig, 0) + 1
                return
            stats.failure = (text, out.sig, out.msg, out.detail)
            raise AssertionError(out.msg)

    try:
        test()
    except AssertionError:
        pass                        # stats.failure holds the (shrunk) example
    except hypothesis.errors.Flaky:
        if stats.failure is not None and not getattr(mod, "REPORT_UNREPRODUCED", False):
            stats.unreproduced.append(stats.failure)
            stats.failure = None
    except hypothesis.errors.FailedHealthCheck as e:
        stats.error = "health check: %s" % e
    except Exception:
        stats.error = traceback.format_exc()
    ctx.close()
    return stats


def confirm(mod, ctx, text, times=3, recorded=None):
    """Re-run a failing case outside Hypothesis. Returns the failing Outcome or None.

    Race-dependent checks (module sets CONFIRM_TIMES, DESIGN 1.4: C15 threaded part, C19) replay up
    to CONFIRM_TIMES times, stop at the first recurrence, and - if the module sets
    REPORT_UNREPRODUCED - report the recorded first observation when the race does not recur."""
    race = getattr(mod, "CONFIRM_TIMES", None)
    last = None
    for _ in range(race or times):
        out = mod.evaluate(text, ctx)
        if not out.ok:
            last = out
            if race:
                break
    if last is None and recorded is not None and getattr(mod, "REPORT_UNREPRODUCED", False):
        _t, sig, msg, detail = recorded
        last = Outcome(ok=False, sig=sig, detail=detail,
                       msg="%s\n(recorded observation: did not recur in %d replays)" % (msg, race or times))
    return last


def write_replay(prop_id, text, out):
    d = os.path.join(OUT, "replays", prop_id)
    os.makedirs(d, exist_ok=True)
    name = hashlib.sha1(text.encode()).hexdigest()[:12] + ".case"
    p = os.path.join(d, name)
    with open(p, "w") as fh:
        fh.write(text if text.endswith("\n") else text + "\n")
        fh.write("# signature: %s\n" % out.sig)
        for ln in (out.msg or "").split("\n"):
            fh.write("# %s\n" % ln)
        for ln in (out.detail or "").split("\n")[:400]:
            fh.write("# | %s\n" % ln)
    return p


def run_check(prop_id, tier):
    t0 = time.time()
    seed = int(os.environ.get("VERIF_SEED", "0") or "0")
    if seed == 0:
        seed = DEFAULT_SEED
    mod = importlib.import_module("pbt.props.%s" % prop_id.lower())
    budget = dict(mod.BUDGET[tier])
    scale = float(os.environ.get("VERIF_BUDGET_SCALE", "1"))
    variants = getattr(mod, "VARIANTS", ("asan",))
    if isinstance(variants, dict):
        variants = variants[tier]
    build_dirs = {v: buildmod.build(v) for v in variants}
    ctx = Ctx(build_dirs, tier, prop_id)
    opens = known_open_for(prop_id)
    violations = []          # (text, Outcome)
    known_hits = {}
    coverage_extra = {}
    total = Stats()
    errors = []

    def note_failure(text, out, origin):
        e = sig_is_known(out.sig, opens)
        if e is not None:
            known_hits[out.sig] = known_hits.get(out.sig, 0) + 1
            return
        violations.append((text, out, origin))

    # 1. committed regression cases + deterministic fixed cases (seconds)
    reg_files = sorted(glob.glob(os.path.join(VERIF, "regressions", prop_id, "*.case")))
    if os.environ.get("VERIF_NO_REGRESSIONS"):      # mutation experiments: test the search, not the corpus
        reg_files = []
    reg_run = 0
    for p in reg_files:
        with open(p) as fh:
            text = fh.read()
        out = mod.evaluate(text, ctx)
        total.record(text, out)
        reg_run += 1
        if not out.ok:
            note_failure(text, out, "regression:" + os.path.basename(p))
    fixed = mod.fixed_cases(tier) if hasattr(mod, "fixed_cases") else []
    for text in fixed:
        out = mod.evaluate(text, ctx)
        total.record(text, out)
        if not out.ok:
            note_failure(text, out, "fixed-case")

    # 2. generated search
    n_total = int(budget.get("examples", 0) * scale)
    deadline = t0 + budget.get("seconds", 60) * scale
    nw = min(NWORKERS, max(1, n_total)) if n_total > 0 else 0
    if nw:
        per = (n_total + nw - 1) // nw
        args = [(prop_id, tier, seed, w, per, deadline, build_dirs) for w in range(nw)]
        mpctx = multiprocessing.get_context("fork")
        with mpctx.Pool(nw) as pool:
            results = pool.map(_worker, args, chunksize=1)
        for st in results:
            total.evaluations += st.evaluations
            total.nontrivial_digests |= st.nontrivial_digests
            total.inconclusive += st.inconclusive
            total.budget_cut += st.budget_cut
            for k, v in st.classes.items():
                total.classes[k] = total.classes.get(k, 0) + v
            for k, v in st.known_hits.items():
                known_hits[k] = known_hits.get(k, 0) + v
            for s in st.samples:
                if len(total.samples) < 5:
                    total.samples.append(s)
            total.unreproduced += st.unreproduced
            if st.error:
                errors.append(st.error)
            if st.failure is not None:
                text, sig, msg, detail = st.failure
                out = confirm(mod, ctx, text, recorded=st.failure)
                if out is None:
                    total.unreproduced.append(st.failure)
                else:
                    note_failure(text, out, "generated")

    # 3. extra engines (libFuzzer front ends, threaded stress, ...)
    if hasattr(mod, "extra"):
        ex = mod.extra(tier, ctx, seed, deadline)
        total.evaluations += ex.get("evaluations", 0)
        coverage_extra.update(ex.get("coverage", {}))
        for d in ex.get("nontrivial_digests", ()):
            total.nontrivial_digests.add(d)
        for (text, sig, msg) in ex.get("failures", []):
            out = confirm(mod, ctx, text, recorded=(text, sig, msg, ""))
            if out is not None:
                note_failure(text, out, "extra")
            else:
                total.unreproduced.append((text, sig, msg, ""))
    ctx.close()

    # 4. report
    seen = set()
    vlines = []
    for text, out, origin in violations:
        if out.sig in seen:
            continue
        seen.add(out.sig)
        path = write_replay(prop_id, text, out)
        vlines.append("VIOLATION property=%s replay=%s" % (prop_id, path))
        sys.stdout.write("%s\n  signature: %s (%s)\n  %s\n" % (vlines[-1], out.sig, origin,
                                                              (out.msg or "").replace("\n", "\n  ")))
    for e in opens:
        print("KNOWN-FINDING: property=%s %s [signature %s, hits this run: %d]"
              % (prop_id, e["what"], e["signature"], known_hits.get(e["signature"], 0)))

    samples = [s if len(s) < 3000 else s[:3000] + "\n...(truncated)" for s in total.samples]
    if not samples and fixed:
        samples = fixed[:2]
    cov = {
        "evaluations": total.evaluations,
        "distinct_nontrivial": len(total.nontrivial_digests),
        "rule": mod.RULE,
        "samples": samples,
        "classes": dict(sorted(total.classes.items())),
        "regression_cases_replayed": reg_run,
        "fixed_cases": len(fixed),
        "known_finding_hits": known_hits,
        "unreproduced": [dict(case=t, signature=s, message=m) for (t, s, m, _d) in total.unreproduced][:5],
        "inconclusive": total.inconclusive,
        "budget_cut_examples": total.budget_cut,
        "workers": nw,
        "worker_seeds": [worker_seed(seed, prop_id, w) for w in range(nw)],
        "build": {v: os.path.basename(d) for v, d in build_dirs.items()},
        "machinery_errors": errors[:3],
    }
    cov.update(coverage_extra)
    ev = {
        "property_id": prop_id,
        "tier": tier,
        "seed": seed,
        "level": "exploration",
        "coverage": cov,
        "assumptions": list(getattr(mod, "ASSUMPTIONS", [])),
        "wall_s": round(time.time() - t0, 2),
        "violations": len(vlines),
    }
    os.makedirs(os.path.join(OUT, "evidence"), exist_ok=True)
    with open(os.path.join(OUT, "evidence", "%s.json" % prop_id), "w") as fh:
        json.dump(ev, fh, indent=1, sort_keys=True)
        fh.write("\n")
    print("%s %s: %d cases, %d distinct non-trivial, %d known-finding hits, %d violations, %.1fs"
          % (prop_id, tier, total.evaluations, len(total.nontrivial_digests),
             sum(known_hits.values()), len(vlines), time.time() - t0))
    if errors:
        sys.stderr.write("MACHINERY ERROR (not a verdict on the property):\n%s\n" % errors[0])
    if vlines:
        return 1
    if errors:
        return 2
    return 0


def run_replay(prop_id, path):
    mod = importlib.import_module("pbt.props.%s" % prop_id.lower())
    variants = getattr(mod, "VARIANTS", ("asan",))
    if isinstance(variants, dict):
        variants = variants["thorough"]
    build_dirs = {v: buildmod.build(v) for v in variants}
    ctx = Ctx(build_dirs, "quick", prop_id)
    with open(path) as fh:
        text = fh.read()
    out = confirm(mod, ctx, text)
    ctx.close()
    if out is None:
        print("replay %s: property %s held" % (path, prop_id))
        return 0
    e = sig_is_known(out.sig, known_open_for(prop_id))
    if e is not None:
        print("KNOWN-FINDING: property=%s %s [signature %s]" % (prop_id, e["what"], e["signature"]))
        return 0
    print("VIOLATION property=%s replay=%s" % (prop_id, os.path.abspath(path)))
    print("  signature: %s\n  %s" % (out.sig, (out.msg or "").replace("\n", "\n  ")))
    if out.detail:
        print("  " + out.detail.replace("\n", "\n  "))
    return 1
