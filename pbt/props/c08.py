"""C08 - no lost wake-ups: nobody stays blocked while its demand can be met."""
from .. import simprop

ID = "C08"
FAMILY = "C08"
VARIANTS = ("asan", "rel")      # rel: only to re-judge a case that UBSan stopped (simprop)
BUDGET = {"quick": dict(examples=80000, seconds=55), "thorough": dict(examples=2000000, seconds=540)}
NONTRIVIAL = {'delivered-interrupt', 'end-with-obligations', 'wait-ended-by-timeout', 'pq-cancel'}
PROFILES = [(4, 'wakeup'), (1, 'mixed')]
RULE = ('Hypothesis-generated scenarios (profile wakeup 80%, mixed 20%) over resources, pools, buffers, object and priority queues with waiters that leave by timeout / interrupt / stop in the instant in which they were granted, rollbacks, holder drops, priority-queue cancels. Oracle: at the end of every simulated instant and at quiescence no process is blocked on a free resource, on a pool with units available, as getter on a buffer/queue with content or as putter on one with space. Non-trivial = a wait ended by timeout or interrupt, or a process ended with holdings/waits, or an object was cancelled from a priority queue. distinct = SHA-1 of the scenario text.')
RULE = RULE + simprop.RULE_SUFFIX
ASSUMPTIONS = ["trace oracles in pbt/simtrace.py (soundness rules DESIGN.md par. 2.1)",
               "operations whose documented precondition is false when reached are skipped by the interpreter "
               "(counted), never executed"]


def strategy(tier):
    return simprop.strategy_for(PROFILES, tier)


def serialize(case):
    return case


def evaluate(text, ctx):
    return simprop.evaluate_family(text, ctx, FAMILY, NONTRIVIAL)
