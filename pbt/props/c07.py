"""C07 - pool units are conserved; acquire, rollback, preempt and release account exactly."""
from .. import simprop

ID = "C07"
FAMILY = "C07"
VARIANTS = ("asan", "rel")      # rel: only to re-judge a case that UBSan stopped (simprop)
BUDGET = {"quick": dict(examples=80000, seconds=55), "thorough": dict(examples=2000000, seconds=540)}
NONTRIVIAL = {'pool-preempt-victim', 'pool-acquire-cut-short', 'pool-top-up'}
PROFILES = [(4, 'pool'), (1, 'mixed')]
RULE = ('Hypothesis-generated scenarios (profile pool 80%, mixed 20%): capacities 1-8, amounts 1..capacity, top-ups of existing holdings, partial fulfilment and waiting, interrupts / timeouts / preemptions (same pool, another pool, a plain resource) / stops at every point of a multi-step acquisition, changing priorities. Oracle: per-process holdings built from return values; after every event held_by_process equals the model (within [before, before+n] while an acquisition is in flight), in_use == sum of holdings <= capacity, available == capacity - in_use; SUCCESS adds exactly n, an interrupted call leaves exactly the previous holding (0 if robbed by a preemption on that pool), every process robbed had strictly lower priority than a preempting caller and gets PREEMPTED in that instant. Non-trivial = an acquisition cut short, or a preemption victim, or a top-up. distinct = SHA-1 of the scenario text.')
RULE = RULE + simprop.RULE_SUFFIX
ASSUMPTIONS = ["trace oracles in pbt/simtrace.py (soundness rules DESIGN.md par. 2.1)",
               "operations whose documented precondition is false when reached are skipped by the interpreter "
               "(counted), never executed"]


def strategy(tier):
    return simprop.strategy_for(PROFILES, tier)


def serialize(case):
    return case


def evaluate(text, ctx):
    return simprop.evaluate_family(text, ctx, FAMILY, NONTRIVIAL)
