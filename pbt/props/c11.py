"""C11 - buffer level is conserved and partial transfers are reported exactly."""
from .. import simprop

ID = "C11"
FAMILY = "C11"
VARIANTS = ("asan", "rel")      # rel: only to re-judge a case that UBSan stopped (simprop)
BUDGET = {"quick": dict(examples=80000, seconds=55), "thorough": dict(examples=2000000, seconds=540)}
NONTRIVIAL = {'buffer-partial-transfer', 'buffer-amount-above-capacity'}
PROFILES = [(4, 'buffer'), (1, 'mixed')]
RULE = ('Hypothesis-generated scenarios (profile buffer 80%, mixed 20%): producers and consumers on buffers of capacity 1-6 and unlimited, amounts 0 (get), 1..9, near 2^64, interrupts / timeouts / stops between partial transfers. Oracle: after every event 0 <= level <= capacity, space == capacity - level and level == sum of put transfers - sum of get transfers, counting completed calls by their reported amounts and blocked calls by the in-flight value of their amount variable; SUCCESS means the full request was transferred. Non-trivial = a partial transfer was reported or an amount above the capacity was requested. distinct = SHA-1 of the scenario text.')
RULE = RULE + simprop.RULE_SUFFIX
ASSUMPTIONS = ["trace oracles in pbt/simtrace.py (soundness rules DESIGN.md par. 2.1)",
               "operations whose documented precondition is false when reached are skipped by the interpreter "
               "(counted), never executed"]


def strategy(tier):
    return simprop.strategy_for(PROFILES, tier)


def serialize(case):
    return case


def evaluate(text, ctx):
    return simprop.evaluate_family(text, ctx, FAMILY, NONTRIVIAL)
