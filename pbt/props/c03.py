"""C03 - context switches preserve each process's execution state and deliver messages.

Generated: PROGRAMS over 2-6 coroutines (layer raw: cmi_coroutine_*) or processes
(layer process: cmb_process_* driven by the event queue) plus main: one script of
steps per actor.  Every step is one library call issued at a generated call depth
(0-40 recursive frames holding canary arrays) through a nasm probe that loads
generated 64-bit patterns into rbx, rbp, r12-r15 and a generated MXCSR before the
call and stores them again when the call returns (harness/coro_probe.asm).
Oracle: the lockstep reference model in harness/m_coro.c (who gets control next, in
which way, with which message; status, exit value, current), the probe's
bit-identity of registers / MXCSR control bits, the stack canaries, the alignment
checks at function entry and at the entry of the exit function.
The Python side only generates (with a small simulation of the same semantics so
that most generated steps are enabled when reached - it is a density heuristic, the
executor re-evaluates every precondition itself) and classifies.
"""
import os
import re

from hypothesis import strategies as st

from .. import build as _build
from ..common import crash_outcome, parse_kv
from ..runner import Outcome

ID = "C03"
# "ship" (gcc -O3 with -fomit-frame-pointer, as shipped) needs the extra entry in pbt/build.py
_SHIP = ("ship",) if "ship" in _build.VARIANTS else ()
VARIANTS = {"quick": ("asan", "rel"), "thorough": ("asan", "rel") + _SHIP}
BUDGET = {"quick": dict(examples=44000, seconds=60),
          "thorough": dict(examples=400000, seconds=600)}
RULE = ("Hypothesis-generated programs (per-actor scripts over start/resume/transfer/yield/return/exit/"
        "stop/restart for raw coroutines, pstart/presume/pstop/run/hold/pyield/pexit/preturn for "
        "cmb_process) over 2-6 coroutines and main, every switch at a generated call depth 0-40 with "
        "generated rbx/rbp/r12-r15 patterns and MXCSR, each case executed on the asan AND the rel (gcc -O3) "
        "build. Non-trivial = (>= 3 coroutines entered and >= 1 switch at depth > 0 with a non-default "
        "MXCSR control word) or (a coroutine stopped by another one and restarted) or (a return through "
        "the trampoline). distinct = SHA-1 of the case text.")
ASSUMPTIONS = [
    "reference model in harness/m_coro.c implements the semantics documented in src/cmi_coroutine.h "
    "(every transfer into X makes the sender X's caller; exit/return goes to the parent; control only "
    "passes to running coroutines) and, for layer process, the documented event order (time, then FIFO "
    "for equal priority)",
    "the message given to cmi_coroutine_start is not delivered to the new coroutine (nothing documents "
    "how it would be received); only handle and context are checked at entry",
    "register and MXCSR contents are sampled (generated), not enumerated; MXCSR status flags (bits 0-5), "
    "x87 control word and rflags are outside the property statement and are not judged",
    "compilers keep the ABI stack alignment between the trampoline and the observed entry points "
    "(asan: entry passes through the C wrapper cmi_verif_entry; process layer: the exit function "
    "cmb_process_exit is observed through the saved stack pointer only)",
    "steps whose documented precondition is false in the model when reached are skipped, never executed; "
    "transfer/resume to oneself, stop of main, signal 0 in cmb_process_resume and cmb_process_wait_* are "
    "not generated",
]

RAW_OPS = ("start", "resume", "transfer", "yield", "return", "exit", "stop")
M64 = (1 << 64) - 1
DEFAULT_MXCSR = 0x1F80
CREATED, RUNNING, FINISHED = 0, 1, 2


def _mix(x):
    x &= M64
    x ^= x >> 30
    x = (x * 0xBF58476D1CE4E5B9) & M64
    x ^= x >> 27
    x = (x * 0x94D049BB133111EB) & M64
    x ^= x >> 31
    return x


def _regs(style, seed):
    """Six 64-bit patterns (rbx rbp r12 r13 r14 r15) derived from drawn data."""
    if style == 0:
        return [_mix(seed * 8 + j) for j in range(6)]
    if style == 1:                       # all ones / zero alternating, start given by seed
        return [M64 if (seed + j) & 1 else 0 for j in range(6)]
    if style == 2:                       # one bit per register
        return [1 << ((seed + 11 * j) % 64) for j in range(6)]
    if style == 3:                       # address-like values (canonical user-space pointers)
        return [0x00007F0000000000 | (_mix(seed + j) & 0xFFFFFFFFF0) for j in range(6)]
    if style == 4:                       # small distinct integers
        return [(seed + j) & 0xFF for j in range(6)]
    return [_mix(seed)] * 6              # the same value everywhere


_SPECIAL_MXCSR = [0x1D00, 0x0000, 0xFFC0, 0x7F80, 0x3F80, 0x5F80, 0x9F80, 0x1FC0]
_packed = st.integers(0, (1 << 30) - 1)
_seed64 = st.integers(0, M64)
_step_extra = st.tuples(_packed, _seed64)


def _unpack(extra):
    """(packed, seed) -> (style, seed, mxcsr, depth, value). packed = 0 is the simplest step:
    depth 0, default MXCSR, mixed register patterns."""
    q, seed = extra
    dmode, dval = q & 3, (q >> 2) & 63
    depth = (0, dval % 4, 1 + dval % 12, dval % 41)[dmode]
    if dval == 63:
        depth = 40
    mmode, mval = (q >> 8) & 3, (q >> 10) & 0xFFFF
    mxcsr = (DEFAULT_MXCSR, mval, mval, _SPECIAL_MXCSR[mval % 8])[mmode]
    style = (0, 0, 0, 0, 0, 0, 0, 0, 1, 2, 3, 4, 5, 0, 0, 0)[(q >> 26) & 15]
    return style, seed, mxcsr, depth, _mix(seed ^ 0x5EED) if seed else 0


_choice = st.integers(0, (1 << 20) - 1)      # low 4 bits all ones: blind step; rest: candidate index
_small = st.integers(0, 63)
_ncoro = st.integers(2, 6)
_total = st.one_of(st.integers(3, 24), st.integers(10, 60))
_ctxval = st.integers(0, M64)
_rawop = st.sampled_from(RAW_OPS)
_procop = st.sampled_from(("pstart", "presume", "pstop"))
_sigs = st.sampled_from([1, 2, 7, -1 & M64, -2 & M64, -5 & M64, 1 << 63, 0x1234567])


def _mk(actor, op, tgt, extra, val=None):
    style, seed, mxcsr, depth, v = _unpack(extra)
    if val is not None:
        v = val
    return (actor, op, tgt, v, depth, tuple(_regs(style, seed)), mxcsr)


_co = st.tuples(st.integers(0, M64),
                st.sampled_from([65536, 65536, 65543, 65544, 65551, 32768, 40000, 131072 + 9]),
                st.sampled_from(["probe", "probe", "default"]))


@st.composite
def _raw_case(draw):
    n = draw(_ncoro)
    cos = [draw(_co) for _ in range(n)]
    total = draw(_total)
    status = [RUNNING] + [CREATED] * n
    caller = [-1] * (n + 1)
    parent = [-1] * (n + 1)
    parked = [False] * (n + 1)
    cur = 0
    steps = []
    guard = 0
    while len(steps) < total and guard < 4 * total:
        guard += 1
        a = cur
        if parked[a]:
            caller[0] = a
            cur = 0
            continue
        cand = []
        par_ok = a != 0 and parent[a] >= 0 and status[parent[a]] == RUNNING
        for t in range(1, n + 1):
            if status[t] == CREATED:
                cand += [("start", t)] * 4
            elif status[t] == FINISHED:
                cand += [("start", t)] * 6
            elif t != a:
                cand += [("resume", t)] * 2 + [("transfer", t)] * 2 + [("stop", t)]
        if a != 0:
            cand += [("resume", 0), ("transfer", 0), ("transfer", 0)]
        if caller[a] >= 0 and caller[a] != a and status[caller[a]] == RUNNING:
            cand += [("yield", -1)] * 6
        if par_ok:
            cand += [("return", -1)] * 3 + [("exit", -1)] * 2 + [("stop", a)]
        if a != 0:
            cand += [("park", -1)]
        k = draw(_choice)
        if (k & 15) == 15 or not cand:
            op = draw(_rawop)
            tgt = draw(_small) % (n + 1) if op in ("start", "resume", "transfer", "stop") else -1
        else:
            op, tgt = cand[(k >> 4) % len(cand)]
        if op == "park":
            parked[a] = True
            continue
        steps.append(_mk(a, op, tgt, draw(_step_extra)))
        # density simulation (the executor decides for real)
        if op == "start":
            if 1 <= tgt <= n and status[tgt] != RUNNING:
                status[tgt] = RUNNING
                parent[tgt] = caller[tgt] = a
                cur = tgt
        elif op in ("resume", "transfer"):
            if 0 <= tgt <= n and tgt != a and status[tgt] == RUNNING:
                caller[tgt] = a
                cur = tgt
        elif op == "yield":
            c = caller[a]
            if c >= 0 and c != a and status[c] == RUNNING:
                caller[c] = a
                cur = c
        elif op in ("return", "exit") or (op == "stop" and tgt == a):
            if par_ok:
                status[a] = FINISHED
                caller[parent[a]] = a
                cur = parent[a]
        elif op == "stop":
            if 1 <= tgt <= n and status[tgt] == RUNNING:
                status[tgt] = FINISHED
    return ("raw", cos, steps)


@st.composite
def _proc_case(draw):
    n = draw(_ncoro)
    cos = [(draw(_ctxval), 65536, "default") for _ in range(n)]
    total = draw(_total)
    status = [RUNNING] + [CREATED] * n
    parked = [False] * (n + 1)
    eq = []                 # [time, seq, kind, proc]
    seq = 0
    now = 0
    cur = 0
    run_left = 0
    steps = []
    guard = 0

    def drop(p):
        eq[:] = [e for e in eq if e[3] != p]

    while len(steps) < total and guard < 6 * total:
        guard += 1
        a = cur
        if a == 0 and run_left > 0:
            if not eq:
                run_left = 0
                continue
            run_left -= 1
            e = min(eq)
            eq.remove(e)
            now = e[0]
            if e[2] == "start":
                status[e[3]] = RUNNING
            elif e[2] == "resume":      # a hold woken by a resume cancels its timer
                eq[:] = [x for x in eq if not (x[2] == "timer" and x[3] == e[3])]
            cur = e[3]
            continue
        if a != 0 and parked[a]:
            cur = 0
            continue
        cand = []
        for t in range(1, n + 1):
            if status[t] != RUNNING:
                if not any(e[2] == "start" and e[3] == t for e in eq):
                    cand += [("pstart", t)] * (5 if status[t] == FINISHED else 3)
            else:
                cand += [("presume", t)] * (1 if t == a else 2)
                if t != a:
                    cand += [("pstop", t)]
        if a == 0:
            cand += [("run", -1)] * (8 if eq else 1)
        else:
            cand += [("hold", -1)] * 6 + [("pyield", -1)] * 2 + [("pexit", -1)] * 2 + \
                    [("preturn", -1)] * 3 + [("park", -1), ("pstop", a)]
        k = draw(_choice)
        if (k & 15) == 15:
            op = draw(_procop)
            tgt = 1 + draw(_small) % n
        else:
            op, tgt = cand[(k >> 4) % len(cand)]
        if op == "park":
            parked[a] = True
            continue
        extra = draw(_step_extra)
        val = None
        if op == "run":
            val = 1 + draw(_small) % 6
        elif op == "hold":
            val = draw(_small) % 4
        elif op == "presume":
            val = draw(_sigs)
        steps.append(_mk(a, op, tgt, extra, val))
        if op == "pstart":
            if status[tgt] != RUNNING and not any(e[2] == "start" and e[3] == tgt for e in eq):
                eq.append([now, seq, "start", tgt]); seq += 1
        elif op == "presume":
            if status[tgt] == RUNNING:
                eq.append([now, seq, "resume", tgt]); seq += 1
        elif op == "pstop":
            if status[tgt] == RUNNING:
                status[tgt] = FINISHED
                drop(tgt)
                if tgt == a:
                    cur = 0
        elif op == "run":
            run_left = val
        elif op == "hold":
            eq.append([now + val, seq, "timer", a]); seq += 1
            cur = 0
        elif op == "pyield":
            cur = 0
        elif op in ("pexit", "preturn"):
            status[a] = FINISHED
            drop(a)
            cur = 0
    return ("process", cos, steps)


def strategy(tier):
    return st.one_of(_raw_case(), _raw_case(), _proc_case())


def _stepline(s):
    actor, op, tgt, val, depth, regs, mxcsr = s
    return "s %d %s %s %#x %d %s %#x" % (actor, op, "-" if tgt < 0 else "%d" % tgt, val, depth,
                                         " ".join("%#x" % r for r in regs), mxcsr)


def serialize(case):
    layer, cos, steps = case
    lines = ["mode coro", "layer %s" % layer]
    for i, (ctx, stack, exitfn) in enumerate(cos):
        lines.append("co %d %#x %d %s" % (i + 1, ctx, stack, exitfn))
    for s in steps:
        lines.append(_stepline(s))
    return "\n".join(lines) + "\n"


# ------------------------------------------------------------ fixed cases --

def _pingpong(pairs, stack=65536, exitfn="probe"):
    """main starts c1; c1 yields with (regs, mxcsr, depth) of pairs[i][1], main resumes with pairs[i][0]."""
    steps = [(0, "start", 1, 0x51, 0, tuple(_regs(0, 1)), DEFAULT_MXCSR)]
    for i, (m, c) in enumerate(pairs):
        steps.append((1, "yield", -1, 0xC000 + i, c[2], tuple(c[0]), c[1]))
        steps.append((0, "resume", 1, 0xA000 + i, m[2], tuple(m[0]), m[1]))
    steps.append((1, "return", -1, 0x4E7, 0, tuple(_regs(0, 2)), DEFAULT_MXCSR))
    return serialize(("raw", [(0xC0FFEE, stack, exitfn), (0xBEEF, 65536, "default")], steps))


def fixed_cases(tier):
    out = []
    if os.environ.get("C03_NO_FIXED"):       # sensitivity experiments: generated search only
        return out
    # every MXCSR control word (DAZ, 64 mask combinations, 4 rounding modes, FTZ): 1024 values
    vals = [v << 6 for v in range(1024)]
    for k in range(16):
        chunk = vals[k * 64:(k + 1) * 64]
        pairs = []
        for i in range(32):
            pairs.append(((_regs(0, 1000 * k + i), chunk[2 * i], i % 5),
                          (_regs(0, 7000 * k + i), chunk[2 * i + 1], (i + 2) % 7)))
        out.append(_pingpong(pairs))
    # walking one bit / walking zero through every callee-saved register
    for inv in (0, M64):
        pairs = []
        for b in range(0, 64, 2):
            pairs.append((([(1 << ((b + 11 * j) % 64)) ^ inv for j in range(6)], DEFAULT_MXCSR, b % 3),
                          ([(1 << ((b + 1 + 11 * j) % 64)) ^ inv for j in range(6)], 0x1D00, (b + 1) % 4)))
        out.append(_pingpong([(m, c) for m, c in pairs]))
    # every call depth on both sides
    pairs = [((_regs(0, 40 + d), 0x7F80, d), (_regs(0, 90 + d), 0x3FC0, 40 - d)) for d in range(41)]
    out.append(_pingpong(pairs, stack=131072))
    # every residue of the stack size mod 16, both exit paths (return through the trampoline)
    for k in range(16):
        out.append(_pingpong([((_regs(0, k), 0x5F80, 1), (_regs(0, 50 + k), 0x1FC0, 2))],
                             stack=65536 + k, exitfn="probe" if k % 2 else "default"))
    # restart storm: one coroutine on the smallest stack the executor offers, started again and again
    # (more restarts than the stack has 16-byte slots); each run works at some call depth and returns.
    # Whatever a (re)start costs in stack must not accumulate.
    n = 2200
    steps = []
    for i in range(n):
        steps.append((0, "start", 1, 0x700 + i, i % 3, tuple(_regs(0, 3 * i)), DEFAULT_MXCSR))
    for i in range(n):
        steps.append((1, "return", -1, 0xE000 + i, 10 + i % 7, tuple(_regs(0, 3 * i + 1)), 0x1F80 if i % 2 else 0x7F80))
    out.append(serialize(("raw", [(0x5707, 32768, "probe" if tier == "quick" else "default")], steps)))
    # process layer: start via event, hold/timer and resume wake-ups, stop + restart, trampoline
    r = lambda s: tuple(_regs(0, s))
    steps = [
        (0, "pstart", 1, 0, 1, r(1), 0x1F80), (0, "pstart", 2, 0, 0, r(2), 0x7F80),
        (0, "pstart", 3, 0, 3, r(3), 0x3F80), (0, "run", -1, 4, 5, r(4), 0x5FC0),
        (0, "presume", 2, 7, 0, r(5), 0x1F80), (0, "pstop", 3, 0x5707, 2, r(6), 0x1D00),
        (0, "run", -1, 6, 9, r(7), 0xFFC0), (0, "pstart", 3, 0, 0, r(8), 0x1F80),
        (0, "pstart", 1, 0, 0, r(9), 0x1F80), (0, "run", -1, 6, 40, r(10), 0x0040),
        (1, "hold", -1, 2, 7, r(11), 0x0000), (1, "preturn", -1, 0xE1, 0, r(12), 0x1F80),
        (1, "hold", -1, 0, 3, r(13), 0x9F80), (1, "pexit", -1, 0xE2, 11, r(14), 0x1F80),
        (2, "hold", -1, 3, 12, r(15), 0x1FC0), (2, "pyield", -1, 0, 4, r(16), 0x7FC0),
        (3, "pyield", -1, 0, 20, r(17), 0x3F00), (3, "hold", -1, 1, 1, r(18), 0x1F80),
        (3, "preturn", -1, 0xE3, 0, r(19), 0x1F80),
    ]
    out.append(serialize(("process", [(0x11, 65536, "default"), (0x22, 65536, "default"),
                                      (0x33, 65536, "default")], steps)))
    return out


# --------------------------------------------------------------- evaluate --

def _layer(text):
    for ln in text.split("\n"):
        if ln.startswith("layer "):
            return ln.split()[1]
    return "?"


_num = re.compile(r"0x[0-9a-fA-F]+|[0-9]+")


def _category(msg):
    head, _, rest = msg.partition(": ")
    w = rest.split()
    if head == "register" and len(w) > 6:
        # register: rbx not preserved across yield by coroutine: loaded ..., found ...
        return "register/%s/%s/%s" % (w[0], w[4], w[6].rstrip(":"))
    if head == "mxcsr" and len(w) > 7:
        # mxcsr: control bits not preserved across yield by coroutine: loaded ..., found ...
        return "mxcsr/%s/%s" % (w[5], w[7].rstrip(":"))
    return "%s/%s" % (head, _num.sub("#", rest)[:60].strip())


def evaluate(text, ctx):
    layer = _layer(text)
    summaries = []
    for variant in ("asan", "rel", "ship"):
        if variant not in ctx.build_dirs:
            continue
        res = ctx.run(text, variant)
        if res.parse_error:
            raise RuntimeError("generator produced an unparsable case:\n" + text)
        if res.timed_out:
            return Outcome(ok=True, inconclusive=True)
        if res.oracle_failed:
            f = res.fail_lines()
            msg = f[0] if f else "oracle failed without message"
            if msg.startswith("machinery:"):
                raise RuntimeError("executor machinery error: %s\n%s" % (msg, text))
            return Outcome(ok=False, sig="coro/%s/%s/%s" % (layer, variant, _category(msg)),
                           msg="[%s build] %s" % (variant, msg), detail="\n".join(res.lines[-40:]))
        if res.crashed:
            out = crash_outcome(res, "coro-crash/%s/%s" % (layer, variant))
            out.detail = "\n".join(res.lines[-30:]) + "\n" + out.detail
            return out
        n = None
        for ln in res.lines:
            if ln.startswith("N "):
                n = ln
        if n is None:
            raise RuntimeError("executor finished without a summary line:\n" + text)
        summaries.append(n)
    if any(x != summaries[0] for x in summaries[1:]):
        raise RuntimeError("the builds took different paths through the same program:\n%s\n%s"
                           % ("\n".join(summaries), text))
    n = parse_kv(summaries[0])
    classes = ["layer=" + layer, "actors=%d" % n.get("actors", 0)]
    a = n.get("entered", 0) >= 3 and n.get("deep_nd", 0) >= 1
    b = n.get("stoprestart", 0) >= 1
    c = n.get("tramp", 0) >= 1
    if a:
        classes.append("A:>=3-entered+deep+nondefault-mxcsr")
    if b:
        classes.append("B:stopped-by-other+restarted")
    if c:
        classes.append("C:return-through-trampoline")
    for key, label in (("restarts", "restart-any"), ("nested_start", "nested-start"),
                       ("mainyield", "main-yields"), ("exit_deep", "exit-at-depth>0"),
                       ("exitprobe", "exit-function-probed"), ("transfers", "transfer"),
                       ("yields", "yield"), ("parks", "parked"), ("unmasked", "unmasked-exception"),
                       ("stops", "stop"), ("selfstop", "stop-of-oneself"), ("timerwake", "timer-wake"), ("resumewake", "resume-wake"),
                       ("flagsdiff", "mxcsr-status-flags-differ(not judged)")):
        if n.get(key, 0) > 0:
            classes.append(label)
    if n.get("rcmask", 0) == 15:
        classes.append("all-4-rounding-modes")
    if n.get("maxdepth", 0) >= 20:
        classes.append("depth>=20")
    if n.get("switches", 0) >= 20:
        classes.append("switches>=20")
    if n.get("resumed", 0) >= 3:
        classes.append(">=3-coroutines-resumed-after-suspension")
    tot = n.get("steps", 0) + n.get("skipped", 0)
    if tot and n.get("skipped", 0) * 5 > tot:
        classes.append("skipped>20%")
    if n.get("skipped", 0) > 0:
        classes.append("skipped-any")
    return Outcome(ok=True, nontrivial=bool(a or b or c), classes=classes)
