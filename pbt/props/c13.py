"""C13 - a condition wakes exactly the satisfied waiters, also via observed guards."""
from .. import simprop

ID = "C13"
FAMILY = "C13"
VARIANTS = ("asan", "rel")      # rel: only to re-judge a case that UBSan stopped (simprop)
BUDGET = {"quick": dict(examples=80000, seconds=55), "thorough": dict(examples=2000000, seconds=540)}
NONTRIVIAL = {'cond-mixed-outcomes', 'cond-forwarded-signal', 'cond-cancel', 'cond-remove'}
PROFILES = [(4, 'condition'), (1, 'mixed')]
RULE = ("Hypothesis-generated scenarios (profile condition 80%, mixed 20%): 1-5 waiters with different predicates (counter >= a, resource free, pool available >= a, buffer level >= a, queue length >= a, constant) and priorities; explicit signals, state changes on observed resources / pools / buffers / queues without explicit signal (observers registered through cmb_resourceguard_register and through cmb_condition_subscribe), cancel and remove of named waiters, waiters leaving by timeout / interrupt / stop. Oracle: at every explicit signal, at every forwarded signal (seen by a tap registered as observer of the same guard) and after every release/put/get on an observed object, the harness evaluates all waiters' predicates itself: the satisfied ones must return SUCCESS within that instant (or leave for a ledgered reason), a waiter must not return SUCCESS in an instant in which its predicate was false at every signal, cancel makes exactly the named waiter return CANCELLED, remove takes it out silently. Non-trivial = a signal with both satisfied and unsatisfied waiters, or a forwarded signal, or a cancel/remove that hit. distinct = SHA-1 of the scenario text.")
RULE = RULE + simprop.RULE_SUFFIX
ASSUMPTIONS = ["trace oracles in pbt/simtrace.py (soundness rules DESIGN.md par. 2.1)",
               "operations whose documented precondition is false when reached are skipped by the interpreter "
               "(counted), never executed"]


def strategy(tier):
    return simprop.strategy_for(PROFILES, tier)


def serialize(case):
    return case


def evaluate(text, ctx):
    return simprop.evaluate_family(text, ctx, FAMILY, NONTRIVIAL)
