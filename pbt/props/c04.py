"""C04 - waits return at the right time for exactly one cause; no stale wake-ups."""
from .. import simprop

ID = "C04"
FAMILY = "C04"
VARIANTS = ("asan", "rel")      # rel: only to re-judge a case that UBSan stopped (simprop)
BUDGET = {"quick": dict(examples=80000, seconds=55), "thorough": dict(examples=2000000, seconds=540)}
NONTRIVIAL = {'multi-cause-same-instant', 'delivered-interrupt', 'wait-ended-by-timeout'}
PROFILES = [(3, 'timing'), (1, 'mixed'), (1, 'lifecycle')]
RULE = ('Hypothesis-generated scenarios (profiles timing 60%, mixed 20%, lifecycle 20%): holds, several timers per process, timeouts armed before every kind of wait, yield/resume, wait-for-process, wait-for-event, interrupts and stops from processes and from dispatcher events on the same instants (times are small integers and halves, durations include 0). Oracle: a ledger of notifications addressed to each process (armed timers, interrupts, resumes, preemptions, cancels, ends of awaited processes, executed/cancelled awaited events): hold returning SUCCESS must be at exactly start+d; every non-SUCCESS return must match exactly one undelivered ledger entry due now; SUCCESS returns of yield / wait_process / wait_event need their own completion; armed timers must be delivered in their instant unless cancelled, cleared, replaced or voided by interrupt/preemption/end; at quiescence nobody is suspended past what it waited for. Non-trivial = two causes for one process on one instant, or a wait ended by its timeout, or an interrupt delivered. distinct = SHA-1 of the scenario text.')
RULE = RULE + simprop.RULE_SUFFIX
ASSUMPTIONS = ["trace oracles in pbt/simtrace.py (soundness rules DESIGN.md par. 2.1)",
               "operations whose documented precondition is false when reached are skipped by the interpreter "
               "(counted), never executed"]


def strategy(tier):
    return simprop.strategy_for(PROFILES, tier)


def serialize(case):
    return case


def evaluate(text, ctx):
    return simprop.evaluate_family(text, ctx, FAMILY, NONTRIVIAL)
