"""C15 - random streams depend on the seed alone and are the documented generator.

Generated: a seed S (any uint64, biased to 0, 1, 2^64-1, the dummy seed), a PROBE
(1..8 sampler ops with small counts, parameters inside the documented domains and
away from their boundaries - boundaries are C16's business), and a list of VARIANT
segments, each with its own thread plan (main thread / fresh pthread / a worker
thread that already ran other segments / one of 2..16 threads released together by
a barrier) and its own PREFIX HISTORY (seedings, odd numbers of coin flips, gammas of
other shapes, geometrics, alias draws, cmb_random_terminate ...) executed before
`cmb_random_initialize(S)`.

Oracle (a) - documented generator: an independent Python sfc64/splitmix64
(_random_common.RefSfc64) must reproduce, bit for bit, every `sfc64` / `random`
output (and `curseed`) that follows a seeding, in every segment; cases with
1000 raw outputs are generated for every seed class.
Oracle (b) - seed alone: all segments of one executor run that share the text
"seed S + probe ops" must produce identical bit patterns and identical raw-draw
counts per op (hook 2), whatever their prefix history, thread and neighbours.
The first segment runs first in the main thread of a newly forked process with no
prefix, so it IS the fresh-process reference.

Both oracles are exact (no tolerance): a false alarm needs a defect in this
machinery, not bad luck. Thread interleavings are provoked (barrier start,
2..16 threads, ~1.2e4 raw draws each, 1..3 rounds), not controlled; a mismatch inside a
concurrent group is re-run with the same segments executed one after the other to
tell "history" from "concurrency", and replayed up to CONFIRM_TIMES = 20 times; if
it does not recur the recorded observation is reported (runner.confirm, REPORT_UNREPRODUCED).
"""
from hypothesis import strategies as st

from ..common import crash_outcome, fhex
from ..runner import Outcome
from ._random_common import DUMMY_SEED, MASK, SAMPLERS, RefSfc64, Trace, op_lines

ID = "C15"
VARIANTS = ("asan",)
BUDGET = {"quick": dict(examples=40000, seconds=50),
          "thorough": dict(examples=400000, seconds=480)}
CONFIRM_TIMES = 20            # runner.confirm: replay up to 20x, stop at the first recurrence
REPORT_UNREPRODUCED = True    # ... and report the recorded observation if a race does not recur (DESIGN 1.4)
RULE = ("Hypothesis-generated (seed, probe, [thread plan + prefix history]...) cases run against the real "
        "samplers; per case the probe's bit patterns and raw-draw counts are compared across all segments "
        "and every sfc64/random/curseed output after a seeding is compared with an independent reference "
        "generator. Non-trivial = at least two segments with the same seed+probe were compared and at "
        "least one of them had a non-empty prefix history, a non-main thread or concurrent neighbours; or "
        ">= 1000 raw outputs were compared with the reference. distinct = SHA-1 of the case text.")
ASSUMPTIONS = ["the Python reference (splitmix64 -> a,b,c,counter; 20 discards; sfc64 with shifts 24/11/3) is "
               "the documented generator",
               "sampler parameters are interior points of the documented domains; boundaries are C16",
               "thread interleavings are provoked, not enumerated; a race needing a rare schedule can be missed",
               "every thread seeds before it draws (documented usage)"]


def racy_signature(sig):
    return "/concurrency/" in sig or "/thread/" in sig


# ----------------------------------------------------------------------------
# generation
# ----------------------------------------------------------------------------
FIXED_VECS = [
    ("pv3", [0.25, 0.5, 0.25]), ("pv1", [1.0]), ("pv5", [0.0, 0.25, 0.25, 0.0, 0.5]),
    ("pv3z", [0.5, 0.5, 0.0]),
    ("mv3", [1.0, 2.0, 0.5]), ("mv1", [3.0]), ("mv5", [1.0, 2.0, 3.0, 4.0, 5.0]),
]
PAIRS = [("mv3", "pv3"), ("mv1", "pv1"), ("mv5", "pv5"), ("mv3", "pv3z")]
ALIASES = [("al3", "pv3"), ("al1", "pv1"), ("al5", "pv5"), ("alg", "pvg")]


def fl(lo, hi):
    """A parameter in [lo, hi]: mostly from a coarse grid of quarters, so that values recur between
    the prefix history and the probe and stand in simple relations to each other (s and s + 1, s and
    2 s, ...) - that is where a cache keyed on the wrong quantity shows - otherwise any float."""
    grid = [k / 4.0 for k in range(1, 41) if lo <= k / 4.0 <= hi]
    anyf = st.floats(min_value=lo, max_value=hi, allow_nan=False, allow_infinity=False, allow_subnormal=False)
    if not grid:
        return anyf.map(fhex)
    return st.one_of(st.sampled_from(grid), st.sampled_from(grid), anyf).map(fhex)


def _ordered3():
    return st.tuples(st.floats(-10, 10), st.floats(0.01, 5), st.floats(0.01, 5)).map(
        lambda t: [fhex(t[0]), fhex(t[0] + t[1]), fhex(t[0] + t[1] + t[2])])


def _range2():
    return st.tuples(st.floats(-10, 10), st.floats(0.01, 50)).map(lambda t: [fhex(t[0]), fhex(t[0] + t[1])])


def _ints(lo, hi):
    return st.integers(lo, hi).map(str)


def _args(name):
    """parameters well inside the documented domain of cmb_random_<name>"""
    T = st.tuples
    if name in ("sfc64", "curseed", "random", "std_normal", "std_exponential", "flip"):
        return st.just([])
    if name == "uniform":
        return _range2()
    if name in ("triangular", "PERT"):
        return _ordered3()
    if name == "PERT_mod":
        return T(_ordered3(), fl(0.5, 20)).map(lambda t: t[0] + [t[1]])
    if name in ("normal", "logistic", "cauchy"):
        return T(fl(-10, 10), fl(0.01, 10)).map(list)
    if name == "lognormal":
        return T(fl(0.01, 3), fl(0.01, 1.5)).map(list)
    if name in ("exponential", "rayleigh"):
        return T(fl(0.01, 100)).map(list)
    if name == "erlang":
        return T(_ints(1, 20), fl(0.01, 10)).map(list)
    if name == "hypoexponential":
        return st.sampled_from(["mv3", "mv1", "mv5"]).map(lambda v: [v])
    if name == "hyperexponential":
        return st.sampled_from(PAIRS).map(list)
    if name == "std_gamma":
        return T(fl(0.05, 50)).map(list)
    if name in ("gamma", "weibull"):
        return T(fl(0.1, 50), fl(0.01, 10)).map(list)
    if name == "std_beta":
        return T(fl(0.05, 20), fl(0.05, 20)).map(list)
    if name == "beta":
        return T(fl(0.05, 20), fl(0.05, 20), _range2()).map(lambda t: [t[0], t[1]] + t[2])
    if name == "pareto":
        return T(fl(0.5, 20), fl(0.01, 10)).map(list)
    if name == "chisquared":
        return T(fl(0.2, 50)).map(list)
    if name == "F_dist":
        return T(fl(0.5, 50), fl(0.5, 50)).map(list)
    if name == "std_t_dist":
        return T(fl(0.5, 50)).map(list)
    if name == "t_dist":
        return T(fl(-10, 10), fl(0.01, 10), fl(0.5, 50)).map(list)
    if name == "bernoulli":
        return T(fl(0.0, 1.0)).map(list)
    if name == "geometric":
        return T(fl(0.01, 1.0)).map(list)          # p = 1 is inside the documented domain (0, 1]
    if name == "binomial":
        return T(_ints(1, 50), fl(0.01, 1.0)).map(list)
    if name in ("negative_binomial", "pascal"):
        return T(_ints(1, 10), fl(0.05, 1.0)).map(list)
    if name == "poisson":
        return T(fl(0.01, 30)).map(list)
    if name == "dice":
        return T(st.integers(-1000, 1000), st.integers(1, 1000)).map(lambda t: [str(t[0]), str(t[0] + t[1])])
    if name == "loaded_dice":
        return st.sampled_from(["pv3", "pv1", "pv5", "pv3z"]).map(lambda v: [v])
    if name == "alias_sample":
        return st.sampled_from([a for a, _ in ALIASES]).map(lambda v: [v])
    raise KeyError(name)


# samplers that keep something between calls (bit cache, cached parameters) get extra weight
STATEFUL = ["flip", "std_gamma", "gamma", "geometric", "negative_binomial", "std_beta", "chisquared",
            "alias_sample", "PERT"]
ALL = [n for n in SAMPLERS if n != "curseed"]


def _build_call(weights_stateful=2):
    per = {n: _args(n).map(lambda a, n=n: (n, a)) for n in ALL}
    return st.one_of(*([per[n] for n in ALL] + [per[n] for n in STATEFUL] * weights_stateful))


_CALL = _build_call()


def _call():
    return _CALL


SEEDS = st.one_of(st.integers(0, MASK), st.integers(0, MASK),
                  st.sampled_from([0, 1, MASK, DUMMY_SEED, 1 << 63, (1 << 32) - 1, 2]))
PREFIX_COUNTS = st.sampled_from([1, 1, 2, 3, 5, 17, 31, 63, 64, 65, 100])


def _prefix():
    """history of a thread before the seeding under test: seed first (documented usage)"""
    item = st.one_of(st.tuples(st.just("call"), PREFIX_COUNTS, _call()),
                     st.tuples(st.just("call"), PREFIX_COUNTS, _call()),
                     st.tuples(st.just("call"), st.sampled_from([1, 3, 7, 33]), st.just(("flip", []))),
                     st.tuples(st.just("seed"), SEEDS),
                     st.just(("terminate",)))
    return st.lists(item, min_size=0, max_size=6)


def _probe():
    raw1000 = st.just((1000, ("sfc64", [])))
    op = st.tuples(st.integers(1, 40), _call())
    return st.tuples(st.one_of(st.none(), st.none(), raw1000, st.just((3, ("random", [])))),
                     st.lists(op, min_size=1, max_size=8))


def strategy(tier):
    variant = st.tuples(st.sampled_from(["main", "fresh", "reuse", "fresh", "reuse"]), _prefix())
    conc = st.one_of(
        st.none(),
        st.tuples(st.sampled_from([1, 1, 2, 3, 7, 8, 15]),      # other threads
                  st.integers(1, 3),                            # rounds
                  st.lists(_prefix(), min_size=1, max_size=4),  # prefixes, cycled over the threads
                  SEEDS,                                        # seed of the "noise" threads
                  st.lists(st.tuples(st.integers(1, 40), _call()), min_size=1, max_size=4),
                  st.sampled_from([0, 0, 1, 2])))                # every n-th thread is a noise thread (0 none)
    return st.fixed_dictionaries(dict(
        fp=st.sampled_from(["masked", "masked", "trap"]),
        seed=SEEDS,
        probe=_probe(),
        variants=st.lists(variant, min_size=1, max_size=4),
        conc=conc,
        aliasw=st.tuples(st.sampled_from([1, 2, 3, 7, 16, 64, 255, 256, 300]), st.integers(0, 2 ** 32 - 1)),
    ))


def _weights(n, x):
    """n pseudo-random integer weights 0..1023 (about 1/8 of them zero), a pure function of (n, x)"""
    ws = []
    for _ in range(n):
        x = (x * 6364136223846793005 + 1442695040888963407) & MASK
        w = (x >> 40) & 1023
        ws.append(0 if (x >> 61) == 0 else w)
    if sum(ws) == 0:
        ws[0] = 1
    return ws


def _op_line(kw, count, call):
    name, args = call
    return " ".join([kw, str(count), name] + list(args))


def _prefix_lines(prefix, need_seed, default_seed):
    lines = []
    seeded = not need_seed
    for it in prefix:
        if it[0] == "seed":
            lines.append("seed %d" % it[1])
            seeded = True
        elif it[0] == "terminate":
            if seeded:
                lines.append("terminate")
                seeded = False
        else:
            if not seeded:
                lines.append("seed %d" % default_seed)
                seeded = True
            lines.append(_op_line("call", it[1], it[2]))
    return lines


def _cost(call):
    """rough number of raw draws per call"""
    name, args = call
    if name in ("binomial", "erlang"):
        return int(args[0])
    if name in ("negative_binomial", "pascal"):
        return int(args[0])
    if name == "poisson":
        return 1 + int(float.fromhex(args[0]))
    if name in ("hypoexponential",):
        return 5
    return 2


def _scaled(ops, target_draws):
    tot = sum(c * _cost(call) for c, call in ops)
    f = max(1, target_draws // max(1, tot))
    return [(c * f, call) for c, call in ops]


def serialize(case):
    L = ["mode random", "fp " + case["fp"]]
    for name, xs in FIXED_VECS:
        L.append("vec %s %s" % (name, " ".join(fhex(x) for x in xs)))
    ws = _weights(*case["aliasw"])
    tot = float(sum(ws))
    L.append("vec pvg %s" % " ".join(fhex(w / tot) for w in ws))
    for a, v in ALIASES:
        L.append("alias %s %s" % (a, v))
    first, ops = case["probe"]
    probe = ([first] if first else []) + list(ops)
    S = case["seed"]
    alt = (S * 0x9E3779B97F4A7C15 + 12345) & MASK      # seed used where a prefix draws before seeding

    def probe_lines(kw, plist, seed):
        return ["seed %d" % seed, "emit 1 curseed"] + [_op_line(kw, c, call) for c, call in plist]

    L.append("segment main")
    L += probe_lines("emit", probe, S)
    for plan, prefix in case["variants"]:
        L.append("segment " + plan)
        L += _prefix_lines(prefix, True, alt)
        L += probe_lines("emit", probe, S)
    if case["conc"] is not None:
        others, rounds, prefixes, nseed, nprobe, nth = case["conc"]
        longp = _scaled(ops, 12000)
        longn = _scaled(nprobe, 12000)
        L.append("segment main")
        L += probe_lines("dig", longp, S)
        L.append("conc-begin %d" % rounds)
        for k in range(others + 1):
            L.append("segment fresh")
            L += _prefix_lines(prefixes[k % len(prefixes)], True, alt)
            if nth and k % (nth + 1) == nth:
                L += probe_lines("dig", longn, nseed)
            else:
                L += probe_lines("dig", longp, S)
        L.append("conc-end")
    return "\n".join(L) + "\n"


# ----------------------------------------------------------------------------
# oracle
# ----------------------------------------------------------------------------
def _segments(text):
    """-> list of dict(plan, ops=[(global op index, line)], probe_start, key, conc)"""
    segs = []
    opi = 0
    conc = 0
    in_conc = False
    for ln in text.split("\n"):
        s = ln.strip()
        if not s or s[0] == "#":
            continue
        w = s.split()[0]
        if w == "conc-begin":
            conc += 1
            in_conc = True
        elif w == "conc-end":
            in_conc = False
        elif w == "segment":
            segs.append(dict(plan=s.split()[1], ops=[], conc=conc if in_conc else 0))
        elif w in ("seed", "terminate", "call", "emit", "dig", "hist"):
            segs[-1]["ops"].append((opi, s))
            opi += 1
    for sg in segs:
        last_seed = None
        for k, (_i, s) in enumerate(sg["ops"]):
            if s.startswith("seed "):
                last_seed = k
        sg["probe_start"] = last_seed
        sg["key"] = "\n".join(s for _i, s in sg["ops"][last_seed:]) if last_seed is not None else None
    return segs


def _bits_random(raw):
    import struct
    return struct.unpack(">Q", struct.pack(">d", (raw >> 11) * 2.0 ** -53))[0]


def _reference_check(segs, outs_by):
    """oracle (a): returns (error message, sampler) or None; plus number of values compared"""
    compared = 0
    for si, sg in enumerate(segs):
        for rnd in sorted({r for (s, r, _o) in outs_by if s == si}):
            ref = None
            seed = None
            for (opi, s) in sg["ops"]:
                p = s.split()
                if p[0] == "seed":
                    seed = int(p[1])
                    ref = RefSfc64(seed)
                    continue
                if p[0] == "terminate":
                    ref = None
                    seed = None
                    continue
                cnt, name = int(p[1]), p[2]
                if name == "curseed":
                    o = outs_by.get((si, rnd, opi))
                    if o is not None and o.tag == "o" and seed is not None:
                        for v in o.values_u64().tolist():
                            compared += 1
                            if v != seed:
                                return ("segment %d op %d: cmb_random_curseed() = %#x after seeding with %#x"
                                        % (si, opi, v, seed), "curseed"), compared
                    continue
                if ref is None:
                    continue
                if name not in ("sfc64", "random"):
                    ref = None                   # position in the stream no longer known
                    continue
                o = outs_by.get((si, rnd, opi))
                if o is not None and o.tag == "o":
                    got = o.values_u64().tolist()
                    for k, v in enumerate(got):
                        r = ref.next()
                        want = r if name == "sfc64" else _bits_random(r)
                        compared += 1
                        if v != want:
                            return ("segment %d op %d (%s): output %d after cmb_random_initialize(%#x) is %016x, "
                                    "documented generator gives %016x" % (si, opi, name, k, seed, v, want),
                                    name), compared
                else:
                    for _ in range(cnt):
                        ref.next()
    return None, compared


def _compare_groups(segs, tr, outs_by):
    """oracle (b): first mismatch between segments with the same seed+probe text"""
    groups = {}
    for si, sg in enumerate(segs):
        if sg["key"] is not None:
            groups.setdefault(sg["key"], []).append(si)
    ncompared = 0
    for key, members in groups.items():
        if len(members) < 2 and not any(segs[m]["conc"] for m in members):
            continue
        ref_si = members[0]
        ref_sg = segs[ref_si]
        ref_ops = ref_sg["ops"][ref_sg["probe_start"]:]
        for si in members:
            sg = segs[si]
            my_ops = sg["ops"][sg["probe_start"]:]
            rounds = sorted({r for (s, r, _o) in outs_by if s == si})
            for rnd in rounds:
                if si == ref_si and rnd == 0:
                    continue
                ncompared += 1
                for (ropi, rs), (mopi, _ms) in zip(ref_ops, my_ops):
                    if rs.startswith("seed "):
                        continue
                    a = outs_by.get((ref_si, 0, ropi))
                    b = outs_by.get((si, rnd, mopi))
                    if a is None or b is None:
                        continue
                    what = None
                    if a.payload != b.payload:
                        what = "value"
                    if tr.hook and (a.draws != b.draws or a.maxdraws != b.maxdraws):
                        what = "draws"
                    if what:
                        msg = ("after cmb_random_initialize(%s) the op '%s' gave different %s in segment %d "
                               "(plan %s%s, round %d) than in segment %d (plan %s): draws %d vs %d; payload %s vs %s"
                               % (key.split("\n")[0].split()[1], rs, "raw-draw counts" if what == "draws" else "bit patterns",
                                  si, sg["plan"], ", concurrent" if sg["conc"] else "", rnd, ref_si, ref_sg["plan"],
                                  b.draws, a.draws, b.payload[:64], a.payload[:64]))
                        return dict(sampler=a.sampler, what=what, seg=si, msg=msg), ncompared
    return None, ncompared


def _run(text, ctx):
    res = ctx.run(text, "asan")
    if res.parse_error:
        raise RuntimeError("generator produced an unparsable case:\n%s\n%s" % (text, res.lines[-3:]))
    return res


def _sequentialised(text):
    out = []
    for ln in text.split("\n"):
        if ln.startswith("conc-begin") or ln.startswith("conc-end"):
            continue
        out.append(ln)
    return "\n".join(out)


def _classes(text, segs):
    cl = set()
    lines = text.split("\n")
    if "fp trap" in lines[:3]:
        cl.add("fp-trap")
    s0 = segs[0]
    seed = int(s0["ops"][0][1].split()[1])
    cl.add("seed-special" if seed in (0, 1, MASK, DUMMY_SEED, 1 << 63, (1 << 32) - 1, 2) else "seed-random")
    probe_samplers = {s.split()[2] for _i, s in s0["ops"] if s.startswith("emit ")}
    if any(s.startswith("emit 1000 sfc64") for _i, s in s0["ops"]):
        cl.add("raw1000")
    for n in ("flip", "geometric", "alias_sample"):
        if n in probe_samplers:
            cl.add("probe-" + n)
    if probe_samplers & {"std_gamma", "gamma", "std_beta", "beta", "PERT", "PERT_mod", "chisquared", "F_dist",
                         "std_t_dist", "t_dist"}:
        cl.add("probe-gamma-family")
    for sg in segs[1:]:
        pre = sg["ops"][:sg["probe_start"]]
        if sg["conc"]:
            cl.add("conc")
            continue
        cl.add("plan-" + sg["plan"])
        if any(" flip" in s and s.startswith("call ") and int(s.split()[1]) % 64 for _i, s in pre):
            cl.add("prefix-flip-partial-cache")
        if any(s.startswith("call ") for _i, s in pre):
            cl.add("prefix-nonempty")
        if any(s == "terminate" for _i, s in pre):
            cl.add("prefix-terminate")
        if any(s.startswith("seed ") for _i, s in pre[1:]):
            cl.add("prefix-reseed")
    nconc = sum(1 for sg in segs if sg["conc"])
    if nconc >= 8:
        cl.add("conc>=8-threads")
    if nconc and len({sg["key"] for sg in segs if sg["conc"]}) > 1:
        cl.add("conc-with-noise-threads")
    return cl


def evaluate(text, ctx):
    res = _run(text, ctx)
    if res.timed_out:
        return Outcome(ok=True, inconclusive=True)
    segs = _segments(text)
    tr = Trace(res)
    if res.crashed:
        name = "?"
        if isinstance(tr.last_mark, tuple):
            ops, _ = op_lines(text)
            ln = ops[tr.last_mark[1]][1].split()
            name = ln[2] if len(ln) > 2 else ln[0]
        elif tr.last_mark:
            name = tr.last_mark
        return crash_outcome(res, "random-crash/" + name)
    if tr.exceeded:
        e = tr.exceeded[0]
        return Outcome(ok=False, sig="draw-budget-exceeded/%s" % e[3],
                       msg="cmb_random_%s consumed > %d raw draws in one call (call %d of op %d)" % (e[3], e[5] - 1, e[4], e[2]))
    outs_by = {(o.seg, o.round, o.op): o for o in tr.outs}
    classes = _classes(text, segs)
    if not tr.hook:
        classes.add("no-draw-hook")

    err, nref = _reference_check(segs, outs_by)
    if err is not None:
        return Outcome(ok=False, sig="differs-from-documented-generator/%s" % err[1], msg=err[0],
                       classes=classes, detail="\n".join(res.lines[:40]))
    mm, ncmp = _compare_groups(segs, tr, outs_by)
    if mm is not None:
        sg = segs[mm["seg"]]
        if sg["conc"]:
            # same segments one after the other: still different -> not a matter of concurrency
            seq = _sequentialised(text)
            r2 = _run(seq, ctx)
            t2 = Trace(r2)
            m2 = None
            if r2.completed:
                m2, _ = _compare_groups(_segments(seq), t2, {(o.seg, o.round, o.op): o for o in t2.outs})
            cat = "history" if m2 is not None else "concurrency"
        else:
            pre = sg["ops"][:sg["probe_start"]]
            has_history = (sg["plan"] != "fresh") or any(s.startswith("call ") for _i, s in pre)
            cat = "history" if has_history else "thread"
        return Outcome(ok=False, sig="stream-not-function-of-seed/%s/%s" % (cat, mm["sampler"]),
                       msg=mm["msg"], classes=classes, detail="\n".join(ln[:300] for ln in res.lines[:200]))
    nontrivial = (nref >= 1000) or (ncmp >= 1 and bool(classes & {"plan-fresh", "plan-reuse", "conc", "prefix-nonempty"}))
    return Outcome(ok=True, nontrivial=nontrivial, classes=sorted(classes))


def fixed_cases(tier):
    """the first 1000 raw outputs for the boundary seeds, in the main thread and in a fresh thread"""
    out = []
    for s in (0, 1, 2, MASK, DUMMY_SEED, 1 << 63, 0x0123456789ABCDEF):
        L = ["mode random", "fp masked"]
        for plan in ("main", "fresh", "reuse", "reuse"):
            L += ["segment " + plan, "seed %d" % s, "emit 1 curseed", "emit 1000 sfc64", "emit 100 random"]
        out.append("\n".join(L) + "\n")
    return out
