"""C18 - sorting, medians, quartiles, histograms, correlograms respect their definitions.

Generated: a dataset or a time series built from 1..3 segments (literal samples:
duplicates / constant / sorted / reverse / general; or integer patterns
(a i^2 + b i + c) mod m for sizes up to 2100, on both sides of the array
doubling thresholds 1024 and 2048), durations with zeros, all-zero, one sample
holding > 50 % or > 25 % of the total, then a random sequence of operations:
sort (x / t), copy (+ add to the copy), dump, median, five-number summary,
histogram (bin counts 1..1000, ranges: auto-scale, covering, inside the data so
that samples fall out on either side, exactly min..max, very wide), the
parent-class calls on a time series, and ACF/PACF groups: the same data
unchanged, shifted, scaled by 2^k, and both, at every admissible lag.
Oracle: pbt/props/stats_lib.py (reference model + exact arithmetic).
"""
from hypothesis import strategies as st

from ..common import crash_outcome
from ..runner import Outcome
from . import stats_lib as L

ID = "C18"
VARIANTS = ("asan",)
BUDGET = {"quick": dict(examples=15000, seconds=45),
          "thorough": dict(examples=90000, seconds=540)}
RULE = ("Hypothesis-generated datasets / time series (literal and pattern segments, sizes 1..2100) and operation "
        "sequences (see module docstring) run on the real cmb_dataset_* / cmb_timeseries_* API; array contents, "
        "medians, five-number and histogram texts and ACF/PACF vectors are judged by a reference model. "
        "Non-trivial = at least one of: a sort of >= 2 samples verified (ascending + same multiset of values or "
        "(x,t,w) triples), a copy verified bit-exact, a (weighted) median of >= 2 samples verified, a histogram "
        "verified against reference binning, an ACF invariance comparison judged. distinct = SHA-1 of the case text.")
ASSUMPTIONS = [
    "samples, time stamps finite; time stamps non-decreasing (documented use of cmb_timeseries_add)",
    "sizes from one upwards: medians / five-number summaries / histograms of EMPTY containers are not requested",
    "no samples are added to a time series after sort_x/sort_t ('no longer a timeseries after this call'); "
    "the weighted histogram is only judged on a series in recording order",
    "ACF needs 1 <= lag < n, PACF 1 <= lag < n-1 (library preconditions); data whose variance is below 1e-8 "
    "(10x the library's 'nearly constant' guard of 1e-9) before or after the transformation are excluded and counted",
    "an autocorrelation coefficient has the sign of the lag-k sum of cross products around the mean whichever "
    "normalisation the estimator uses; judged only where unambiguous (n >= 10, k <= n/4, |r_k| >= 0.3)",
    "histogram bins: a sample within 1e-9 (relative) of a bin edge may be counted on either side",
    "the number of bins actually printed may be smaller than requested (the library reduces it when the range "
    "is narrow; not documented, accepted)",
]

SIZES = [1, 2, 3, 4, 5, 7, 10, 33, 100, 500, 1023, 1024, 1025, 1025, 1500, 2047, 2048, 2049, 2049, 2100]


# ----------------------------------------------------------------------------
# generation
# ----------------------------------------------------------------------------
@st.composite
def _literal_x(draw, lo=1, hi=40):
    shape = draw(st.sampled_from(["dups", "constant", "sorted", "reverse", "general", "general", "tiny", "tiny"]))
    if shape == "tiny":
        n = draw(st.integers(1, 3))
        return shape, draw(st.lists(st.sampled_from([0.0, 1.0, 2.0, -1.0, 5.5, 100.0, -0.0, 3.0]), min_size=n, max_size=n))
    if shape == "dups":
        return shape, [float(v) for v in draw(st.lists(st.integers(-3, 6), min_size=max(lo, 2), max_size=hi))]
    if shape == "constant":
        n = draw(st.integers(lo, hi))
        return shape, [draw(st.sampled_from([0.0, 1.0, 7.5, -2.0, 1e6, 0.1]))] * n
    v = draw(st.lists(st.floats(-1000.0, 1000.0, allow_nan=False, allow_subnormal=False), min_size=lo, max_size=hi))
    if shape == "sorted":
        v = sorted(v)
    elif shape == "reverse":
        v = sorted(v, reverse=True)
    return shape, v


@st.composite
def _durations(draw, n):
    shape = draw(st.sampled_from(["with-zeros", "one>50%", "one>25%", "all-zero", "general", "unit"]))
    base = st.sampled_from([0.0, 0.0, 1.0, 1.0, 2.0, 0.5, 3.0, 0.25])
    if shape == "unit":
        d = [1.0] * n
    elif shape == "all-zero":
        d = [0.0] * n
    elif shape == "general":
        d = draw(st.lists(st.floats(0.0, 100.0, allow_nan=False, allow_subnormal=False), min_size=n, max_size=n))
    else:
        d = draw(st.lists(base, min_size=n, max_size=n))
        if shape != "with-zeros" and n:
            tot = sum(d) + 1.0
            d[draw(st.integers(0, n - 1))] = tot * (draw(st.sampled_from([1.5, 3.0, 10.0])) if shape == "one>50%"
                                                    else draw(st.sampled_from([0.4, 0.5, 0.8])))
    return shape, d


@st.composite
def _segment(draw, want_t):
    if draw(st.integers(0, 2)) == 0:
        n = draw(st.sampled_from(SIZES))
        m = draw(st.sampled_from([1, 2, 3, 7, 10, 97, 1000, 1 << 40]))
        a = draw(st.sampled_from([0, 0, 0, 1, 3]))
        b = draw(st.sampled_from([0, 1, 1, 5, m - 1 if m > 1 else 1, 37]))
        c = draw(st.integers(0, 9))
        off = draw(st.sampled_from([0, 0, -5, 100]))
        sc = draw(st.sampled_from([0, 0, -1, -3, 4]))
        tp = (draw(st.sampled_from([0, 0, 1])), draw(st.sampled_from([0, 1, 1, 2, 5])))
        return ("pat", n, (a, b, c, m, off, sc), tp)
    shape, xs = draw(_literal_x())
    dshape, d = draw(_durations(len(xs))) if want_t else ("", [])
    return ("lit", shape, xs, dshape, d)


HIST_NB = [1, 2, 3, 5, 10, 10, 20, 50, 100, 1000]
HIST_RANGE = ["auto", "auto", "cover", "cover", "inner", "inner", "exact", "left", "right", "wide"]


def _op(kind):
    hist = st.tuples(st.sampled_from(HIST_NB), st.sampled_from(HIST_RANGE), st.sampled_from([0.0, 0.25, 1.0, 0.5]))
    if kind == "ds":
        return st.one_of(
            st.just(("sort",)), st.just(("sort",)), st.just(("dump",)), st.just(("copy",)),
            st.just(("median",)), st.just(("median",)), st.tuples(st.just("fivenum"), st.integers(0, 1)),
            st.builds(lambda h: ("hist",) + h, hist), st.builds(lambda h: ("hist",) + h, hist),
            st.builds(lambda h: ("hfill",) + h, hist),
            st.tuples(st.just("more"), _segment(False)))
    return st.one_of(
        st.just(("sortx",)), st.just(("sortx",)), st.just(("sortt",)), st.just(("dump",)), st.just(("copy",)),
        st.just(("copy+add",)),
        st.just(("median",)), st.just(("median",)), st.just(("median",)),
        st.tuples(st.just("fivenum"), st.integers(0, 1)), st.tuples(st.just("fivenum"), st.integers(0, 1)),
        st.builds(lambda h: ("hist",) + h, hist), st.builds(lambda h: ("hist",) + h, hist),
        st.just(("dsmedian",)), st.tuples(st.just("dsfivenum"), st.integers(0, 1)),
        st.builds(lambda h: ("dshist",) + h, hist),
        st.just(("fin",)),
        st.tuples(st.just("more"), _segment(True)))


@st.composite
def _acf_group(draw):
    kind = draw(st.sampled_from(["general", "ints", "ar", "trend"]))
    n = draw(st.sampled_from([3, 4, 5, 6, 8, 12, 20, 40, 80, 150]))
    if kind == "ints":
        xs = [float(v) for v in draw(st.lists(st.integers(-4, 9), min_size=n, max_size=n))]
    else:
        u = draw(st.lists(st.floats(-1.0, 1.0, allow_nan=False, allow_subnormal=False), min_size=n, max_size=n))
        if kind == "ar":
            xs, prev = [], 0.0
            for v in u:
                prev = 0.8 * prev + v
                xs.append(prev)
        elif kind == "trend":
            xs = [0.1 * i + v for i, v in enumerate(u)]
        else:
            xs = u
    lag_kind = draw(st.sampled_from(["max", "max", "small", "any"]))
    use_pacf = draw(st.booleans())
    top = n - 2 if use_pacf else n - 1
    if top < 1:
        use_pacf, top = False, n - 1
    lag = top if lag_kind == "max" else min(top, draw(st.integers(1, 5))) if lag_kind == "small" \
        else draw(st.integers(1, top))
    lag = min(lag, 60)
    tr = draw(st.lists(st.tuples(st.sampled_from([0, 0, 1, -1, 3, 10, -10, 20, -20]),
                                 st.sampled_from([0.0, 0.0, 1.0, -1.0, 10.0, 1000.0, -12345.5, 1e6])),
                       min_size=1, max_size=3))
    return dict(kind=kind, xs=xs, lag=lag, pacf=use_pacf, given=draw(st.integers(0, 1)), tr=tr,
                ts=draw(st.integers(0, 3)) == 0)


@st.composite
def _case(draw):
    kind = draw(st.sampled_from(["ds", "ts", "ts"]))
    first = draw(_segment(kind == "ts"))
    ops = draw(st.lists(_op(kind), min_size=1, max_size=8))
    acf = draw(st.one_of(st.none(), st.none(), _acf_group()))
    t0 = draw(st.sampled_from([0.0, 0.0, 10.0, 1000.0]))
    return dict(kind=kind, first=first, ops=ops, acf=acf, t0=t0)


def strategy(tier):
    return _case()


# ----------------------------------------------------------------------------
# case text
# ----------------------------------------------------------------------------
def _hist_range(mode, frac, xs):
    lo, hi = min(xs), max(xs)
    span = hi - lo
    if mode == "auto":
        return 0.0, 0.0
    if mode == "exact":
        return (lo, hi) if span > 0 else (lo, lo + 1.0)
    if mode == "cover":
        pad = span * 0.1 + 1.0
        return lo - pad, hi + pad
    if mode == "wide":
        return lo - 1e10, hi + 2e10
    if span == 0:
        return (lo + 1.0, lo + 3.0) if mode == "right" else (lo - 3.0, lo - 1.0) if mode == "left" else (lo - 1.0, lo + 1.0)
    if mode == "inner":
        return lo + span * 0.25 * (1 + frac), hi - span * 0.2
    if mode == "left":        # range left of most data: overflow bin catches nearly all
        return lo - span, lo + span * 0.25 * frac
    return hi - span * 0.25 * frac, hi + span     # "right": underflow bin catches nearly all


def serialize(case):
    P = L.Prog()
    kind = case["kind"]
    meta = ["kind=" + kind]
    state = dict(xs=[], last_t=case["t0"], sorted=False, copied=False)

    def add_segment(seg, slot=0):
        if seg[0] == "pat":
            _, n, (a, b, c, m, off, sc), (ta, tb) = seg
            xi = P.pat(n, a, b, c, m, off, sc)
            xs = P.pool[xi:xi + n]
            meta.append("seg=pattern")
            if kind == "ts":
                ti = P.pat(n, ta, tb, int(L.math.ceil(state["last_t"])), 1 << 60, 0, 0)
                state["last_t"] = P.pool[ti + n - 1]
                P.cmd("ts.add", slot, xi, ti, n)
            else:
                P.cmd("ds.add", slot, xi, n, 0, 0.0)
        else:
            _, shape, xs, dshape, d = seg
            xi = P.lit(xs)
            meta.append("seg=" + shape)
            if kind == "ts":
                t, cur = [], state["last_t"]
                for j in range(len(xs)):
                    t.append(cur)
                    cur = cur + d[j]
                # the last duration of the segment becomes the gap before the next segment / finalize
                state["last_t"] = cur
                ti = P.lit(t)
                meta.append("dur=" + dshape)
                P.cmd("ts.add", slot, xi, ti, len(xs))
            else:
                P.cmd("ds.add", slot, xi, len(xs), 0, 0.0)
        state["xs"] = state["xs"] + list(xs)

    add_segment(case["first"])
    pre = kind + "."
    for op in case["ops"]:
        o = op[0]
        if o == "more":
            if kind == "ts" and state["sorted"]:
                continue
            add_segment(op[1])
        elif o == "fin":
            if state["sorted"]:
                continue
            P.cmd("ts.fin", 0, state["last_t"])
            state["xs"] = state["xs"] + state["xs"][-1:]
        elif o in ("sort", "sortx", "sortt"):
            P.cmd(pre + o, 0)
            P.cmd(pre + "dump", 0)
            if kind == "ts":
                state["sorted"] = True
        elif o == "dump":
            P.cmd(pre + "dump", 0)
        elif o in ("copy", "copy+add"):
            P.cmd(pre + "dump", 0)
            P.cmd(pre + "copy", 1, 0)
            P.cmd(pre + "dump", 1)
            if o == "copy+add" and not state["sorted"]:
                # a copy is a time series in its own right: keep recording into it
                xi = P.lit([state["xs"][-1] + 1.0, state["xs"][-1] - 2.0])
                ti = P.lit([state["last_t"], state["last_t"] + 1.0])
                P.cmd("ts.add", 1, xi, ti, 2)
                P.cmd("ts.dump", 1)
                P.cmd("ts.median", 1)
        elif o in ("median", "dsmedian"):
            P.cmd(pre + o, 0)
        elif o in ("fivenum", "dsfivenum"):
            P.cmd(pre + o, 0, op[1])
        elif o in ("hist", "dshist", "hfill"):
            lo, hi = _hist_range(op[2], op[3], state["xs"])
            if o == "hfill" and not hi > lo:
                lo, hi = min(state["xs"]) - 1.0, max(state["xs"]) + 1.0
            P.cmd(pre + o, 0, op[1], float(lo), float(hi))
            meta.append("hist=" + op[2])
    g = case["acf"]
    if g is not None:
        xi = P.lit(g["xs"])
        n = len(g["xs"])
        cmdname = ("ts." if g["ts"] else "ds.") + ("pacf" if g["pacf"] else "acf")
        ti = P.lit([float(i) for i in range(n)]) if g["ts"] else None
        idxs = []
        for slot, (e, b) in enumerate([(0, 0.0)] + list(g["tr"])):
            if g["ts"]:
                if (e, b) != (0, 0.0):
                    yi = P.lit([L.math.ldexp(x, e) + b for x in g["xs"]])
                else:
                    yi = xi
                P.cmd("ts.add", 2 + slot, yi, ti, n)
            else:
                P.cmd("ds.add", 2 + slot, xi, n, e, float(b))
            if g["pacf"]:
                idxs.append(P.cmd(cmdname, 2 + slot, g["lag"], g["given"]))
            else:
                idxs.append(P.cmd(cmdname, 2 + slot, g["lag"]))
        for slot, (e, b) in enumerate(g["tr"]):
            rel = "shift+scale" if (e != 0 and b != 0.0) else "scale" if e != 0 else "shift" if b != 0.0 else "same"
            P.pool_lines.append("# acfpair %d %d %s" % (idxs[0], idxs[slot + 1], rel))
        meta.append("acf=" + g["kind"])
    P.pool_lines.insert(0, "# kind=%s " % kind + " ".join(sorted(set(meta) - {"kind=" + kind})))
    return P.text()


# ----------------------------------------------------------------------------
# verdict
# ----------------------------------------------------------------------------
NT_KEYS = ("sort", "copy-exact", "median", "hist-text", "hist-bins", "acf-invariance")


def evaluate(text, ctx):
    res = ctx.run(text, "asan")
    if res.parse_error:
        raise RuntimeError("generator produced an unparsable case:\n" + text + "\n".join(res.lines[-3:]))
    if res.timed_out:
        return Outcome(ok=True, inconclusive=True)
    pool, cmds = L.parse_case(text)
    j = L.Judge(pool, cmds, L.answers(res)).run()
    classes = set()
    for ln in text.split("\n"):
        if ln.startswith("# acfpair "):
            t = ln.split()
            j.compare_acf(int(t[2]), int(t[3]), t[4])
        elif ln.startswith("# kind="):
            classes.update(ln[2:].split())
    f = j.first_failure()
    if f is not None:
        return Outcome(ok=False, sig="C18/" + f[0], msg=f[1], detail="\n".join(res.lines[:80]))
    if res.crashed:
        return L.crash(res, "C18/stats-crash")
    classes |= j.classes
    for k, v in j.judged.items():
        if v:
            classes.add("judged:" + k)
    nt = any(j.judged.get(k) for k in NT_KEYS)
    if not nt:
        classes.add("trivial")
    return Outcome(ok=True, nontrivial=nt, classes=sorted(classes))


def fixed_cases(tier):
    """Deterministic sweeps: sort/copy/median/five-number at every size 1..9 and around the
    array-doubling thresholds, for a dataset and a time series."""
    out = []
    for n in list(range(1, 10)) + [1023, 1024, 1025, 2047, 2048, 2049]:
        P = L.Prog()
        xi = P.pat(n, 1, 7, 3, 1013, -500, 0)
        ti = P.pat(n, 0, 2, 5, 1 << 60, 0, 0)
        P.cmd("ds.add", 0, xi, n, 0, 0.0)
        P.cmd("ds.median", 0)
        P.cmd("ds.fivenum", 0, 1)
        P.cmd("ds.dump", 0)
        P.cmd("ds.copy", 1, 0)
        P.cmd("ds.dump", 1)
        P.cmd("ds.sort", 0)
        P.cmd("ds.dump", 0)
        P.cmd("ds.hist", 0, 10, 0.0, 0.0)
        P.cmd("ts.add", 0, xi, ti, n)
        P.cmd("ts.median", 0)
        P.cmd("ts.fivenum", 0, 1)
        P.cmd("ts.dump", 0)
        P.cmd("ts.copy", 1, 0)
        P.cmd("ts.dump", 1)
        P.cmd("ts.sortx", 0)
        P.cmd("ts.dump", 0)
        P.cmd("ts.sortt", 0)
        P.cmd("ts.dump", 0)
        out.append(P.text())
    # more bins than a 16-bit bin index can address (cmb_dataset_histogram_print takes an unsigned)
    P = L.Prog()
    xi = P.lit([0.0, 35000.5, 69999.5, 70000.0, 12.25])
    P.cmd("ds.add", 0, xi, 5, 0, 0.0)
    P.cmd("ds.hist", 0, 70000, 0.0, 70000.0)
    out.append(P.text())
    return out
