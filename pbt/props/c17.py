"""C17 - summaries equal exact sample statistics; merging equals concatenation.

Generated: a sample vector x (0..300 finite doubles; shapes tiny / constant /
common offset up to 1e9 sigma / magnitudes 1e-150..1e150 / small integers /
general), a weight vector (all ones / with zeros / one dominant / general), a
partition of the vector into up to 4 consecutive parts (parts may be empty)
that are summarised separately, resets of summaries that held data (left empty or
refilled with a slice), a list of merges (target = first operand,
second operand or a third summary; operands may be empty, merged before, or
identical), later additions to merged results, and a power-of-two weight scale.
The same program runs on four families of objects:
  U   cmb_datasummary on x
  W   cmb_wtdsummary on (x, w)
  W2  cmb_wtdsummary on (x, w * 2^k)
  WZ  cmb_wtdsummary on (x, w) with the zero-weight samples left out by the executor
plus cmb_dataset_summarize and cmb_timeseries_summarize (+finalize) of the same data.
Oracle (pbt/props/stats_lib.py): count/min/max exact; mean, variance, stddev,
skewness, kurtosis against exact rational statistics of the summary's contents
(condition-number-aware tolerances, see stats_lib docstring); W: exact weighted
mean, count of non-zero weights; all-ones W judged like U; W == W2 == WZ.
"""
import math

from hypothesis import strategies as st

from ..common import crash_outcome
from ..runner import Outcome
from . import stats_lib as L

ID = "C17"
VARIANTS = ("asan",)
BUDGET = {"quick": dict(examples=20000, seconds=45),
          "thorough": dict(examples=120000, seconds=540)}
RULE = ("Hypothesis-generated sample/weight vectors, partitions, merge plans and weight scales (see module "
        "docstring); each case runs the real cmb_datasummary / cmb_wtdsummary / cmb_dataset_summarize / "
        "cmb_timeseries_summarize API and every accessor value is compared with exact rational statistics. "
        "Non-trivial = at least one variance-or-higher statistic of a summary with n >= 2 was judged within "
        "its tolerance budget (ill-conditioned or out-of-range statistics are excluded, not counted) or a "
        "weighted scale/zero-weight relation was judged on a non-empty summary. distinct = SHA-1 of the case text.")
ASSUMPTIONS = [
    "documented definitions: variance = M2/(n-1) ('sample variance'); 'sample skewness' and 'sample excess "
    "kurtosis' are not defined further in the header, so g1/G1/b1 and g2/G2/b2 are all accepted",
    "weighted variance/skewness/kurtosis are judged only through the relations of the property statement "
    "(all-ones == unweighted, weight-scale invariance, zero weights ignored), not against one definition",
    "statistics whose exact deviations leave the range where d^4 is representable in a double (|x| > 1e70 or "
    "range < 1e-70; variance: 1e140) are not judged: overflow is not 'rounding'",
    "mean/variance/... of an EMPTY summary are undefined and not judged; variance needs n>=2, skewness n>=3, "
    "kurtosis n>=4",
    "weights are finite and >= 0 (cmb_wtdsummary_add asserts w >= 0)",
]

NSLOT = 5     # logical slots; W2 = slot + 5, WZ = slot + 10 among the weighted summaries


# ----------------------------------------------------------------------------
# generation
# ----------------------------------------------------------------------------
def _unit_lists(lo, hi):
    return st.lists(st.floats(-1.0, 1.0, allow_nan=False, width=64), min_size=lo, max_size=hi)


@st.composite
def _xs(draw):
    shape = draw(st.sampled_from(["tiny", "tiny", "constant", "offset", "offset", "magnitude",
                                  "ints", "general", "general", "long"]))
    if shape == "tiny":
        n = draw(st.integers(0, 4))
        u = draw(st.lists(st.one_of(st.floats(-1e6, 1e6, allow_nan=False),
                                    st.sampled_from([0.0, 1.0, -1.0, 2.0, 0.5, 1e9, -3.0])),
                          min_size=n, max_size=n))
        return shape, u
    if shape == "constant":
        n = draw(st.integers(1, 40))
        c = draw(st.one_of(st.floats(-1e12, 1e12, allow_nan=False), st.sampled_from([0.0, 1.0, 0.1, -7.25, 1e100])))
        return shape, [c] * n
    if shape == "ints":
        u = draw(st.lists(st.integers(-5, 20), min_size=2, max_size=60))
        return shape, [float(v) for v in u]
    if shape == "long":
        u = draw(_unit_lists(100, 300))
        s = draw(st.sampled_from([1.0, 1e3, 1e-3]))
        return shape, [v * s for v in u]
    u = draw(_unit_lists(2, 48))
    if shape == "offset":
        k = draw(st.sampled_from([0, 2, 3, 4, 5, 6, 7, 8, 9, 9, 10]))
        off = draw(st.sampled_from([1.0, -1.0, 3.7, 1.0 / 3])) * 10.0 ** k
        return "offset-1e%s" % ("0..3" if k <= 3 else "4..6" if k <= 6 else "7..10"), [off + v for v in u]
    if shape == "magnitude":
        e = draw(st.sampled_from([-150, -100, -60, -30, 30, 60, 100, 150]))
        return shape, [v * 10.0 ** e for v in u]
    s = draw(st.sampled_from([1.0, 100.0, 1e-4, 12345.678]))
    return shape, [v * s for v in u]


WPOOL = [0.0, 0.0, 1.0, 1.0, 2.0, 0.5, 3.0, 0.25, 10.0, 0.125, 7.0, 1e-3, 1000.0]


@st.composite
def _ws(draw, n):
    shape = draw(st.sampled_from(["ones", "ones", "zeros-mixed", "dominant", "general", "allzero-some"]))
    if shape == "ones":
        return shape, [1.0] * n
    if shape == "zeros-mixed":
        return shape, draw(st.lists(st.sampled_from(WPOOL), min_size=n, max_size=n))
    if shape == "dominant":
        w = draw(st.lists(st.sampled_from([1.0, 0.5, 2.0, 0.0]), min_size=n, max_size=n))
        if n:
            w[draw(st.integers(0, n - 1))] = draw(st.sampled_from([1e4, 1e6, 2.0 ** 20]))
        return shape, w
    if shape == "allzero-some":
        # a leading run of zero weights: whole parts may carry no weight at all
        w = draw(st.lists(st.sampled_from(WPOOL), min_size=n, max_size=n))
        z = draw(st.integers(0, n))
        return shape, [0.0] * z + w[z:]
    return shape, draw(st.lists(st.floats(2.0 ** -20, 2.0 ** 20, allow_nan=False), min_size=n, max_size=n))


@st.composite
def _case(draw):
    shape, xs = draw(_xs())
    n = len(xs)
    wshape, ws = draw(_ws(n))
    ncut = draw(st.integers(0, 3))
    cuts = sorted(draw(st.lists(st.integers(0, n), min_size=ncut, max_size=ncut)))
    late = 0
    if n >= 2 and draw(st.integers(0, 3)) == 0:
        late = draw(st.integers(1, min(n // 2, 20)))       # kept back, added after the merges
    slot = st.integers(0, NSLOT - 1)
    used = st.integers(0, min(ncut + 1, NSLOT - 1))       # mostly operands that hold a part
    merges = draw(st.lists(st.tuples(slot, st.one_of(used, used, slot), st.one_of(used, used, slot)),
                           min_size=0, max_size=4))
    late_slot = draw(slot)
    k = draw(st.sampled_from([1, -1, 2, 3, 10, -10, 31, -31, 40, -40]))
    paths = draw(st.sampled_from(["", "", "ds", "ts", "ds+ts"]))
    t0 = draw(st.sampled_from([0.0, 1.0, 100.0, 1e6]))
    order = draw(st.sampled_from(["parts-first", "parts-first", "empty-merge-first"]))
    # summaries that are reset after having held data ("a newly initialized state"): empty operands of the
    # merges that follow, or refilled with a slice of the data
    resets = []
    if draw(st.integers(0, 2)) == 0:
        for _ in range(draw(st.integers(1, 2))):
            rs = draw(used)
            lo = draw(st.integers(0, n))
            cnt = draw(st.sampled_from([0, 0, 0, 1, 2, 5, 40]))
            resets.append((rs, lo, min(cnt, n - lo), draw(st.sampled_from(["before-merges", "before-merges", "mid-merges"]))))
    if resets and draw(st.booleans()):
        # make sure the emptied summary meets a (mostly non-empty) operand afterwards
        merges = merges[:3] + [(draw(slot), resets[0][0], draw(used)) if draw(st.booleans())
                               else (draw(slot), draw(used), resets[0][0])]
    return dict(resets=resets, shape=shape, wshape=wshape, xs=xs, ws=ws, cuts=cuts, late=late, merges=merges,
                late_slot=late_slot, k=k, paths=paths, t0=t0, order=order)


def strategy(tier):
    return _case()


# ----------------------------------------------------------------------------
# case text
# ----------------------------------------------------------------------------
def serialize(case):
    xs, ws = case["xs"], case["ws"]
    n = len(xs)
    k = case["k"]
    P = L.Prog()
    xi = P.lit(xs)
    wi = P.lit(ws)
    P.pool_lines.insert(0, "# shape=%s weights=%s" % (case["shape"], case["wshape"]))

    def add(s, lo, cnt):
        P.cmd("sum.add", s, xi + lo, cnt)
        P.cmd("ws.add", s, xi + lo, wi + lo, cnt, 0, 0)
        P.cmd("ws.add", s + NSLOT, xi + lo, wi + lo, cnt, k, 0)
        P.cmd("ws.add", s + 2 * NSLOT, xi + lo, wi + lo, cnt, 0, 1)

    def merge(t, a, b):
        P.cmd("sum.merge", t, a, b)
        P.cmd("ws.merge", t, a, b)
        P.cmd("ws.merge", t + NSLOT, a + NSLOT, b + NSLOT)
        P.cmd("ws.merge", t + 2 * NSLOT, a + 2 * NSLOT, b + 2 * NSLOT)

    def get(s):
        P.cmd("sum.get", s)
        P.cmd("ws.get", s)
        P.cmd("ws.get", s + NSLOT)
        P.cmd("ws.get", s + 2 * NSLOT)

    def reset(s, lo, cnt):
        P.cmd("sum.reset", s)
        P.cmd("ws.reset", s)
        P.cmd("ws.reset", s + NSLOT)
        P.cmd("ws.reset", s + 2 * NSLOT)
        if cnt:
            add(s, lo, cnt)
        get(s)

    nmain = n - case["late"]
    bounds = [0] + [min(c, nmain) for c in case["cuts"]] + [nmain]
    merges = list(case["merges"])
    if case["order"] == "empty-merge-first" and merges:
        # the first merge happens while every summary is still empty
        merge(*merges[0])
        get(merges[0][0])
        merges = merges[1:]
    for i in range(len(bounds) - 1):
        add(i, bounds[i], bounds[i + 1] - bounds[i])
    for i in range(len(bounds) - 1):
        get(i)
    for (rs, lo, cnt, when) in case.get("resets", ()):
        if when == "before-merges":
            reset(rs, lo, cnt)
    for mi, (t, a, b) in enumerate(merges):
        merge(t, a, b)
        get(t)
        if mi == 0:
            for (rs, lo, cnt, when) in case.get("resets", ()):
                if when == "mid-merges":
                    reset(rs, lo, cnt)
    if case["late"]:
        add(case["late_slot"], nmain, case["late"])
        get(case["late_slot"])
        if merges:
            t, a, b = merges[-1]
            merge(t, a, b)
            get(t)
    if "ds" in case["paths"]:
        P.cmd("ds.add", 0, xi, n, 0, 0.0)
        P.cmd("ds.summ", 0, 15)
        P.cmd("sum.get", 15)
    if "ts" in case["paths"] and n >= 1:
        t = [case["t0"]]
        for w in ws:
            t.append(t[-1] + w)
        ti = P.lit(t)
        P.cmd("ts.add", 0, xi, ti, n)
        P.cmd("ts.summ", 0, 15)
        P.cmd("ws.get", 15)
        P.cmd("ts.fin", 0, t[n])
        P.cmd("ts.summ", 0, 15)
        P.cmd("ws.get", 15)
    P.cmd("sum.print", 0, 1)
    return P.text()


# ----------------------------------------------------------------------------
# verdict
# ----------------------------------------------------------------------------
def _var_ok(d):
    xs = d["xs"]
    if not xs:
        return True
    rng = max(xs) - min(xs)
    return max(abs(x) for x in xs) <= 1e140 and (rng == 0 or rng >= 1e-140)


def _higher_ok(d):
    """weight-scale relation for skewness/kurtosis is judged where no under/overflow of
    w^4 d^4 can occur (weights * 2^k stay within 2^-60..2^60 by construction)"""
    xs = d["xs"]
    if not xs:
        return True
    amax = max(abs(x) for x in xs)
    rng = max(xs) - min(xs)
    # exactly constant data: skewness/kurtosis are 0/0 (NaN or rounding noise), nothing to compare
    return amax <= 1e30 and rng >= 1e-30


class _Judge(L.Judge):
    def op_ws_get(self, idx, tok, a):
        s = int(tok[1])
        L.Judge.op_ws_get(self, idx, tok, a)
        d = self.wss[s]
        for back, rel in ((1, "scale"), (2, "zero-weight-ignored")):
            if s // NSLOT == back and s < 3 * NSLOT and idx - back >= 0:
                prev = self.cmds[idx - back]
                if prev[0] == "ws.get" and int(prev[1]) == s - back * NSLOT:
                    if d["xs"]:
                        self.classes.add("ws:rel-" + rel + ("-merged" if d["origin"] != "adds" else ""))
                    self.compare_pair(idx - back, idx, rel, _higher_ok(d), _var_ok(d))


def evaluate(text, ctx):
    res = ctx.run(text, "asan")
    if res.parse_error:
        raise RuntimeError("generator produced an unparsable case:\n" + text + "\n".join(res.lines[-3:]))
    if res.timed_out:
        return Outcome(ok=True, inconclusive=True)
    pool, cmds = L.parse_case(text)
    j = _Judge(pool, cmds, L.answers(res)).run()
    f = j.first_failure()
    if f is not None:
        return Outcome(ok=False, sig="C17/" + f[0], msg=f[1], detail="\n".join(res.lines[:60]))
    if res.crashed:
        return L.crash(res, "C17/stats-crash")
    classes = set(j.classes)
    for ln in text.split("\n", 3)[:3]:
        if ln.startswith("# shape="):
            for t in ln[2:].split():
                classes.add(t)
    for k in ("var", "skew", "kurt", "scale", "zero-weight-ignored"):
        if j.judged.get(k):
            classes.add("judged:" + k)
    for k, r in j.ratio.items():
        # calibration histogram of the worst error in tolerance units (K = 1)
        b = "<=0.1" if r <= 0.1 else "<=1" if r <= 1 else "<=4" if r <= 4 else "<=16" if r <= 16 else ">16"
        classes.add("err-units:%s:%s" % (k, b))
    nt = bool(j.judged.get("var") or j.judged.get("scale") or j.judged.get("zero-weight-ignored"))
    if not nt:
        classes.add("trivial")
    return Outcome(ok=True, nontrivial=nt, classes=sorted(classes))


def fixed_cases(tier):
    """Deterministic boundary cases: every (n1, n2) in 0..4 x 0..4 merged into each
    of the three possible targets, followed by a later addition."""
    out = []
    vals = [1.5, -2.0, 4.25, 0.5, 7.0, -1.25, 3.0, 2.0, 9.5]
    for n1 in range(0, 5):
        for n2 in range(0, 5):
            P = L.Prog()
            xi = P.lit(vals)
            wi = P.lit([1.0] * len(vals))
            for tgt in (0, 1, 2):
                base = 3 * tgt
                P.cmd("sum.add", base, xi, n1)
                P.cmd("sum.add", base + 1, xi + n1, n2)
                P.cmd("ws.add", base, xi, wi, n1, 0, 0)
                P.cmd("ws.add", base + 1, xi + n1, wi, n2, 0, 0)
                P.cmd("sum.merge", base + tgt, base, base + 1)
                P.cmd("ws.merge", base + tgt, base, base + 1)
                P.cmd("sum.get", base + tgt)
                P.cmd("ws.get", base + tgt)
                P.cmd("sum.add", base + tgt, xi + n1 + n2, 1)
                P.cmd("ws.add", base + tgt, xi + n1 + n2, wi, 1, 0, 0)
                P.cmd("sum.get", base + tgt)
                P.cmd("ws.get", base + tgt)
            out.append(P.text())
    return out
