"""C16 - every sampler stays inside its support and follows its stated distribution.

One case = one batch: (seed, sampler, parameter vector, n, FP environment, build
variant, optionally forced raw draws). The executor (harness/m_random.c) calls the
real sampler n times and returns the bit patterns (continuous / wide discrete) or a
value:count table (narrow discrete), plus the raw draws consumed per call (hook 2).

SUPPORT (every case, exact, no tolerance): every returned value satisfies the
support predicate of the documented distribution (finite; inside [min, max]; >= 0;
>= mode; valid index with non-zero probability; count within range). A call that
consumes more than 10^6 raw draws is abandoned by the hook -> "nontermination".
A crash (SIGFPE with invalid/div-by-zero unmasked exactly as inside a cimba process,
sanitizer report, library abort) on admissible parameters is a failure as well.

FIT (rel build, n = 2e5 quick / 2e6 thorough, only parameter vectors in FIT range,
see _fit_range): probability-integral transform u = F(x) with scipy's cdf (sf for
the upper tail), then
  ks      two-sided one-sample Kolmogorov-Smirnov, p from scipy.stats.kstwo
  chi2    Pearson chi-square on 200 equiprobable bins (continuous) / on the pmf with
          cells pooled to expected >= 50 (discrete)
  tail    exact binomial tests of the counts in u < 2^-k and 1-u < 2^-k, k = 8..16
          (Bonferroni over the 10 cells); a value only counts for "too many" if it is
          in the cell for x +- 4 ulp as well, and for "too few" if it could be in it,
          because near a pole of the density (beta shape < 1 at an end point that is
          not 0) neighbouring doubles are further apart than the cell is wide
  mean, var   z-scores against the exact moments (only where skewness / kurtosis are
          small enough for the normal approximation, see _moment_tests)
  ties    a continuous sampler must not return the same double twice more than a
          handful of times in the central 99 % (expected number of coincidences
          under the stated law < 1e-2; limit 12; where the stated law itself piles
          up on the grid of doubles - a density pole next to a non-zero end point -
          the expected number of coincidences n/2 * mean(pdf * spacing) is estimated
          and only a Poisson excess over 4x that estimate at p < 1e-10 counts) -
          detects probability atoms that are far too small for KS / chi-square
A test "fails" at p < 1e-10 (|z| > 7, i.e. nominal 2.6e-12, for the z-scores, to leave
room for the error of the normal approximation) and is reported ONLY if the same
test fails again on an independent seed derived from the case text. Under the null
hypothesis the nominal probability that one (vector, test) is reported is <= 1e-20;
with <= 1e4 fit vectors x 6 tests per run the family-wise false-alarm probability is
<= 6e-16 nominal, and stays < 1e-6 even if every single p-value were wrong by a
factor 10^4.
"""
import hashlib
import math

import numpy as np
from hypothesis import strategies as st
from scipy import special, stats

from ..common import crash_outcome, fhex
from ..runner import Outcome
from ._random_common import MASK, SAMPLERS, Trace

ID = "C16"
VARIANTS = ("asan", "rel")
BUDGET = {"quick": dict(examples=40000, seconds=75),
          "thorough": dict(examples=200000, seconds=520)}
RULE = ("Hypothesis-generated batches (seed, sampler, documented-domain parameter vector biased to boundaries, "
        "n, FP environment masked/trap, optional forced raw draws) executed against the real samplers. "
        "support cases: every one of n = 2000 (quick) / 20000 (thorough) values checked against the support "
        "predicate under ASan+UBSan; fit cases: n = 2e5 / 2e6 values, KS + chi-square + tail + moment + tie "
        "tests against scipy's distribution, a failure needs p < 1e-10 twice (independent seeds). "
        "Non-trivial = the batch completed and at least 1000 values were checked; distinct = SHA-1 of the "
        "case text (seed, sampler, parameters, n).")
ASSUMPTIONS = [
    "scipy.stats distributions (cdf/sf/pmf/moments) are the stated laws; mapping per sampler in _model()",
    "parameter magnitudes are limited (|location| <= 1e6, 1e-6 <= scale <= 1e6, 0.05 <= shape <= 1e3, "
    "degrees of freedom >= 0.1 (chi2) / 0.2 (F, t), p >= 1e-6 for geometric/negative binomial, counts <= 1e3) "
    "so that the true law has < 1e-15 mass beyond DBL_MAX / UINT_MAX; overflow at more extreme parameters is "
    "not judged",
    "lognormal is only exercised with m > 0 as documented, triangular/PERT with min < mode < max as documented",
    "probability vectors: |sum - 1| <= 0.9e-3 (inside the accepted 1e-3); fit tests only for |sum - 1| < 1e-12",
    "outcomes that need one particular raw draw out of 2^53 are reached only by the 'forced' cases (hook 2 "
    "substitutes ONE raw draw of a call); they are reported under separate support-forced/ signatures",
    "distribution errors below ~5e-3 (quick) / 2e-3 (thorough) in CDF, or atoms lighter than ~5e-5, are below "
    "the power of the fit tests",
]

QUICK_FIT_N, THOROUGH_FIT_N = 200000, 2000000           # values returned one by one (KS, ties, ...)
QUICK_BIN_N, THOROUGH_BIN_N = 2000000, 20000000          # values only counted into bins by the executor
P_FAIL = 1e-10
Z_FAIL = 7.0
TIE_LIMIT = 12
EPS = 2.0 ** -52


# ----------------------------------------------------------------------------
# the stated laws
# ----------------------------------------------------------------------------
class Model(object):
    """kind 'c' (continuous) or 'd' (discrete); lo/hi closed support bounds (may be +-inf);
    dist: frozen scipy distribution or None; custom cdf/sf/pmf for the phase-type laws"""

    def __init__(self, kind, lo, hi, dist=None, cdf=None, sf=None, moments=None, pmf_table=None,
                 finite=True, pclass=""):
        self.kind, self.lo, self.hi, self.dist = kind, lo, hi, dist
        self._cdf, self._sf, self._moments = cdf, sf, moments
        self.pmf_table = pmf_table          # discrete laws on 0..n-1 (loaded dice, alias)
        self.finite = finite
        self.pclass = pclass                # parameter class, part of failure signatures

    def cdf(self, x):
        return self._cdf(x) if self._cdf else self.dist.cdf(x)

    def sf(self, x):
        return self._sf(x) if self._sf else self.dist.sf(x)

    def moments(self):
        """mean, variance, skewness, excess kurtosis (None where undefined)"""
        if self._moments:
            return self._moments
        if self.pmf_table is not None:
            p = np.asarray(self.pmf_table)
            k = np.arange(len(p))
            m = float((p * k).sum())
            v = float((p * (k - m) ** 2).sum())
            if v <= 0:
                return m, 0.0, 0.0, 0.0
            return m, v, float((p * (k - m) ** 3).sum() / v ** 1.5), float((p * (k - m) ** 4).sum() / v ** 2 - 3)
        with np.errstate(all="ignore"):
            m, v, s, k = (float(t) for t in self.dist.stats(moments="mvsk"))
        return m, v, s, k


def _hypo_model(ms):
    ms = [float(m) for m in ms]
    from fractions import Fraction
    mean, var = sum(ms), sum(m * m for m in ms)
    k3, k4 = 2 * sum(m ** 3 for m in ms), 6 * sum(m ** 4 for m in ms)
    moments = (mean, var, k3 / var ** 1.5, k4 / var ** 2)
    distinct = sorted(set(ms))
    cdf = sf = None
    if len(distinct) == 1:
        d = stats.gamma(a=len(ms), scale=ms[0])
        cdf, sf = d.cdf, d.sf
    elif len(distinct) == len(ms) and all(b / a >= 1.25 for a, b in zip(distinct, distinct[1:])) and len(ms) <= 6:
        # distinct, well separated rates: sf(x) = sum_i c_i exp(-x/m_i), c_i = prod_{j != i} m_i / (m_i - m_j),
        # coefficients computed exactly in rationals
        fm = [Fraction(m) for m in ms]
        cs = []
        for i, mi in enumerate(fm):
            c = Fraction(1)
            for j, mj in enumerate(fm):
                if j != i:
                    c *= mi / (mi - mj)
            cs.append(float(c))

        def sf(x, cs=cs, ms=ms):
            x = np.asarray(x, dtype=float)
            return np.clip(sum(c * np.exp(-x / m) for c, m in zip(cs, ms)), 0.0, 1.0)

        def cdf(x):
            return 1.0 - sf(x)
    return Model("c", 0.0, math.inf, cdf=cdf, sf=sf, moments=moments)


def _hyper_model(ms, ps):
    ms = np.asarray(ms, dtype=float)
    ps = np.asarray(ps, dtype=float)
    tot = ps.sum()
    q = ps / tot
    raw = [float((q * math.factorial(k) * ms ** k).sum()) for k in (1, 2, 3, 4)]
    m1, m2, m3, m4 = raw
    var = m2 - m1 * m1
    mu3 = m3 - 3 * m1 * m2 + 2 * m1 ** 3
    mu4 = m4 - 4 * m1 * m3 + 6 * m1 * m1 * m2 - 3 * m1 ** 4
    moments = (m1, var, mu3 / var ** 1.5, mu4 / var ** 2 - 3)

    def sf(x):
        x = np.asarray(x, dtype=float)
        return sum(qi * np.exp(-x / mi) for qi, mi in zip(q, ms))

    def cdf(x):
        x = np.asarray(x, dtype=float)
        return sum(qi * -np.expm1(-x / mi) for qi, mi in zip(q, ms))
    return Model("c", 0.0, math.inf, cdf=cdf, sf=sf, moments=moments, pclass=_pv_class(ps))


def _pv_class(ps):
    s = math.fsum(ps)
    if abs(s - 1.0) < 1e-12:
        return "sum=1"
    return "sum<1" if s < 1 else "sum>1"


def _shape_class(*shapes):
    return "shape<1" if min(shapes) < 1.0 else "shape>=1"


def _model(name, a, vecs):
    """a: parsed arguments (floats / ints / vector names). Mapping cimba -> scipy per the header docs."""
    inf = math.inf
    if name == "random":
        return Model("c", 0.0, 1.0, stats.uniform())
    if name == "uniform":
        return Model("c", a[0], a[1], stats.uniform(loc=a[0], scale=a[1] - a[0]))
    if name == "triangular":
        return Model("c", a[0], a[2], stats.triang(c=(a[1] - a[0]) / (a[2] - a[0]), loc=a[0], scale=a[2] - a[0]))
    if name == "std_normal":
        return Model("c", -inf, inf, stats.norm())
    if name == "normal":
        return Model("c", -inf, inf, stats.norm(loc=a[0], scale=a[1]))
    if name == "lognormal":               # mean exp(m + s^2/2), median exp(m)
        return Model("c", 0.0, inf, stats.lognorm(s=a[1], scale=math.exp(a[0])))
    if name == "logistic":
        return Model("c", -inf, inf, stats.logistic(loc=a[0], scale=a[1]))
    if name == "cauchy":
        return Model("c", -inf, inf, stats.cauchy(loc=a[0], scale=a[1]))
    if name == "std_exponential":
        return Model("c", 0.0, inf, stats.expon())
    if name == "exponential":             # parameter is the MEAN
        return Model("c", 0.0, inf, stats.expon(scale=a[0]))
    if name == "erlang":                  # k exponentials each with MEAN m
        return Model("c", 0.0, inf, stats.gamma(a=a[0], scale=a[1]))
    if name == "hypoexponential":
        return _hypo_model(vecs[a[0]])
    if name == "hyperexponential":
        return _hyper_model(vecs[a[0]], vecs[a[1]])
    if name == "std_gamma":
        return Model("c", 0.0, inf, stats.gamma(a=a[0]), pclass=_shape_class(a[0]))
    if name == "gamma":                   # shape, SCALE
        return Model("c", 0.0, inf, stats.gamma(a=a[0], scale=a[1]), pclass=_shape_class(a[0]))
    if name == "std_beta":
        return Model("c", 0.0, 1.0, stats.beta(a[0], a[1]), pclass=_shape_class(a[0], a[1]))
    if name == "beta":
        return Model("c", a[2], a[3], stats.beta(a[0], a[1], loc=a[2], scale=a[3] - a[2]),
                     pclass=_shape_class(a[0], a[1]))
    if name in ("PERT", "PERT_mod"):
        lam = a[3] if name == "PERT_mod" else 4.0
        rng = a[2] - a[0]
        al, be = 1.0 + lam * (a[1] - a[0]) / rng, 1.0 + lam * (a[2] - a[1]) / rng
        return Model("c", a[0], a[2], stats.beta(al, be, loc=a[0], scale=rng))
    if name == "weibull":                 # shape, scale
        return Model("c", 0.0, inf, stats.weibull_min(c=a[0], scale=a[1]))
    if name == "pareto":                  # shape, mode (= minimum)
        return Model("c", a[1], inf, stats.pareto(b=a[0], scale=a[1]))
    if name == "chisquared":
        return Model("c", 0.0, inf, stats.chi2(df=a[0]), pclass="k<2" if a[0] < 2 else "k>=2")
    if name == "F_dist":
        return Model("c", 0.0, inf, stats.f(dfn=a[0], dfd=a[1]))
    if name == "std_t_dist":
        return Model("c", -inf, inf, stats.t(df=a[0]))
    if name == "t_dist":                  # m, s, v
        return Model("c", -inf, inf, stats.t(df=a[2], loc=a[0], scale=a[1]))
    if name == "rayleigh":
        return Model("c", 0.0, inf, stats.rayleigh(scale=a[0]))
    if name == "flip":
        return Model("d", 0, 1, stats.bernoulli(0.5))
    if name == "bernoulli":
        p = a[0]
        return Model("d", 1 if p >= 1.0 else 0, 0 if p <= 0.0 else 1, stats.bernoulli(p),
                     pclass="p=0" if p == 0 else "p=1" if p == 1 else "0<p<1")
    if name == "geometric":               # trials up to and including the first success: 1, 2, ...
        p = a[0]
        hi = 1 if p >= 1.0 else int(math.ceil(-800.0 / math.log1p(-p)))     # P(X > hi) < e^-800
        return Model("d", 1, hi, stats.geom(p), pclass="p=1" if p == 1 else "p<1")
    if name == "binomial":
        n, p = a
        return Model("d", n if p >= 1.0 else 0, n, stats.binom(n, p), pclass="p=1" if p == 1 else "p<1")
    if name in ("negative_binomial", "pascal"):     # failures before the m-th success
        m, p = a
        if p >= 1.0:
            hi = 0
        else:
            mean, sd = m * (1 - p) / p, math.sqrt(m * (1 - p)) / p
            hi = int(mean + 60 * sd + 60 * m * math.ceil(-1.0 / math.log1p(-p)) + 100)   # far beyond e^-800
        return Model("d", 0, hi, stats.nbinom(m, p), pclass="p=1" if p == 1 else "p<1")
    if name == "poisson":
        r = a[0]
        return Model("d", 0, int(r + 60 * math.sqrt(r) + 200), stats.poisson(r))
    if name == "dice":
        lo, hi = a
        return Model("d", lo, hi, stats.randint(lo, hi + 1),
                     pclass="huge" if max(abs(lo), abs(hi)) >= 2 ** 51 else "")
    if name in ("loaded_dice", "alias_sample"):
        ps = np.asarray(vecs[a[0]], dtype=float)
        return Model("d", 0, len(ps) - 1, pmf_table=ps / ps.sum(), pclass=_pv_class(ps))
    raise KeyError(name)


# ----------------------------------------------------------------------------
# generation
# ----------------------------------------------------------------------------
def _f(lo, hi):
    return st.floats(min_value=lo, max_value=hi, allow_nan=False, allow_infinity=False, allow_subnormal=False)


def _logu(lo_exp, hi_exp):
    return _f(lo_exp, hi_exp).map(lambda e: 10.0 ** e)


def _pick(*vals):
    return st.sampled_from(list(vals))


ONE_M = 1.0 - 2.0 ** -53
LOC = st.one_of(_pick(0.0, 1.0, -1.0, 1e6, -1e6, 1e-6, 3.5), _f(-1e3, 1e3))
SCALE = st.one_of(_pick(1.0, 1e-6, 1e6, 0.5, 2.0), _logu(-6, 6))
SHAPE = st.one_of(_pick(0.05, 0.1, 0.3, 1.0 / 3.0, 0.5, 0.9, ONE_M, 1.0, 1.0 + EPS, 2.0, 100.0, 1e3),
                  _logu(math.log10(0.05), 3), _f(0.05, 1.0), _f(1.0, 10.0))
DF = st.one_of(_pick(0.2, 0.5, 1.0, 2.0, 2.0 + 4 * EPS, 3.0, 30.0, 1e3), _logu(math.log10(0.2), 3))
PROB01 = st.one_of(_pick(0.0, 1.0, ONE_M, 2.0 ** -53, 0.5, 1e-6, 0.25), _f(0.0, 1.0))          # [0, 1]
PROB1 = st.one_of(_pick(1.0, 1.0, ONE_M, 0.5, 1e-6, 1e-3, 0.999), _f(1e-6, 1.0), _logu(-6, 0))   # (0, 1]
FIT_LOC = st.one_of(_pick(0.0, 1.0, -2.5), _f(-100, 100))
FIT_SCALE = st.one_of(_pick(1.0, 0.5, 3.0), _logu(-2, 2))
FIT_SHAPE = st.one_of(_pick(0.3, 0.5, 0.9, 1.0, 1.5, 2.0, 7.5, 50.0), _logu(math.log10(0.2), 2), _f(0.2, 1.0), _f(1.0, 5.0))
FIT_DF = st.one_of(_pick(0.5, 1.0, 2.0, 3.0, 10.0, 100.0), _logu(math.log10(0.5), 2))
FIT_PROB = st.one_of(_pick(0.5, 0.1, 0.9, 0.01, 0.999), _f(0.001, 0.999))


def _up(x, k=1):
    for _ in range(k):
        x = math.nextafter(x, math.inf)
    return x


def _ordered3(fit):
    """min < mode < max (documented strict inequalities)"""
    wide = st.tuples(FIT_LOC if fit else LOC, (FIT_SCALE if fit else SCALE), _f(0.0, 1.0)).map(
        lambda t: (t[0], t[0] + t[1] * min(max(t[2], 1e-3), 1 - 1e-3), t[0] + t[1]))
    if fit:
        return wide.filter(lambda t: t[0] < t[1] < t[2])
    near = st.tuples(_pick(1.0, -1.0, 0.0, 1e6, -3.5), st.integers(1, 3), st.integers(1, 3)).map(
        lambda t: (t[0], _up(t[0], t[1]), _up(t[0], t[1] + t[2])))
    edge = st.tuples(LOC, SCALE, st.booleans()).map(
        lambda t: (t[0], _up(t[0]) if t[2] else math.nextafter(t[0] + t[1], -math.inf), t[0] + t[1]))
    return st.one_of(wide, near, edge).filter(lambda t: t[0] < t[1] < t[2])


def _range2(fit):
    if fit:
        return st.tuples(FIT_LOC, FIT_SCALE).map(lambda t: (t[0], t[0] + t[1])).filter(lambda t: t[0] < t[1])
    near = st.tuples(_pick(1.0, -1.0, 0.0, 1e6), st.integers(1, 2)).map(lambda t: (t[0], _up(t[0], t[1])))
    wide = st.tuples(LOC, SCALE).map(lambda t: (t[0], t[0] + t[1]))
    return st.one_of(wide, wide, near).filter(lambda t: t[0] < t[1])


def _pvec(fit, nmax=15):
    """probability vector; zeros allowed; sum exactly ~1 (fit) or 1 +- 0.9e-3 u"""
    def build(t):
        ws, zero_mask, dev, sign = t
        ws = [0.0 if z else float(w) for w, z in zip(ws, zero_mask + [False] * len(ws))]
        if sum(ws) == 0.0:
            ws[len(ws) // 2] = 1.0
        tot = math.fsum(ws)
        target = 1.0 if fit else 1.0 + sign * 0.9e-3 * dev
        ps = [w / tot * target for w in ws]
        return ps
    dev = st.just(0.0) if fit else _pick(0.0, 0.0, 1.0, 0.999, 0.5, 1e-3, 1e-9, 1e-13)
    return st.tuples(st.lists(st.integers(1, 1000), min_size=1, max_size=nmax),
                     st.lists(st.booleans(), min_size=0, max_size=nmax), dev, _pick(-1.0, -1.0, 1.0)).map(build)


def _pvec_special(fit):
    """vectors a user would write down: 0.1 x 10, thirds with four digits, a single 1.0, trailing / leading zeros"""
    vs = [[0.1] * 10, [1.0], [0.5, 0.5], [0.25, 0.25, 0.25, 0.25], [1.0 / 3] * 3, [0.2] * 5, [0.0, 1.0], [1.0, 0.0],
          [0.5, 0.0, 0.5, 0.0], [1.0 / 7] * 7, [0.05] * 20]
    if not fit:
        vs += [[0.3333, 0.3333, 0.3333], [0.333, 0.333, 0.333], [0.9995], [0.5005, 0.5], [0.1667] * 6,
               [0.33, 0.33, 0.33, 0.0095]]
    return st.sampled_from(vs)


def _alias_weights(n, x, fit):
    ws = []
    for _ in range(n):
        x = (x * 6364136223846793005 + 1442695040888963407) & MASK
        w = 1 + ((x >> 40) & 1023)
        ws.append(0.0 if (not fit and (x >> 61) == 0) or (fit and (x >> 60) == 0) else float(w))
    if sum(ws) == 0:
        ws[0] = 1.0
    tot = math.fsum(ws)
    return [w / tot for w in ws]


def _mvec(fit, n=None):
    m = FIT_SCALE if fit else SCALE
    sizes = st.integers(1, 6 if fit else 8) if n is None else st.just(n)
    return sizes.flatmap(lambda k: st.one_of(
        st.lists(m, min_size=k, max_size=k),
        m.map(lambda v: [v] * k),                                           # all equal (Erlang)
        st.tuples(m, _f(1.3, 4.0)).map(lambda t: [t[0] * t[1] ** i for i in range(k)])))  # geometric ladder


def _params(name, fit):
    """strategy -> (args, vecs) where args are floats/ints/vector names and vecs = {name: [floats]}"""
    T = st.tuples
    loc, scale, shape, df = (FIT_LOC, FIT_SCALE, FIT_SHAPE, FIT_DF) if fit else (LOC, SCALE, SHAPE, DF)

    def plain(s):
        return s.map(lambda t: (list(t), {}))
    if name in ("random", "std_normal", "std_exponential", "flip"):
        return st.just(([], {}))
    if name == "uniform":
        return plain(_range2(fit))
    if name in ("triangular", "PERT"):
        return plain(_ordered3(fit))
    if name == "PERT_mod":
        lam = st.one_of(_pick(4.0, 1.0, 0.5, 20.0), _logu(-1, 2)) if fit else st.one_of(_pick(4.0, 1e-6, 1.0, 100.0, 1e6), _logu(-6, 6))
        return plain(T(_ordered3(fit), lam).map(lambda t: t[0] + (t[1],)))
    if name in ("normal", "logistic", "cauchy"):
        return plain(T(loc, scale))
    if name == "lognormal":
        if fit:
            return plain(T(_f(0.01, 3.0), st.one_of(_pick(0.25, 1.0), _f(0.05, 1.5))))
        return plain(T(st.one_of(_pick(2.0 ** -52, 1.0, 10.0), _f(1e-3, 10.0)), st.one_of(_pick(1e-6, 1.0, 5.0), _logu(-6, 0.69))))
    if name in ("exponential", "rayleigh"):
        return plain(T(scale))
    if name == "erlang":
        k = st.one_of(_pick(1, 2, 3, 10), st.integers(1, 50)) if fit else st.one_of(_pick(1, 1, 2, 1000), st.integers(1, 200))
        return plain(T(k, scale))
    if name == "hypoexponential":
        return _mvec(fit).map(lambda m: (["mv"], {"mv": m}))
    if name == "hyperexponential":
        pv = st.one_of(_pvec(fit, 8), _pvec_special(fit).filter(lambda v: len(v) <= 10))
        return pv.flatmap(lambda p: _mvec(fit, len(p)).map(lambda m: (["mv", "pv"], {"mv": m, "pv": p})))
    if name == "std_gamma":
        return plain(T(shape))
    if name in ("gamma", "weibull"):
        return plain(T(shape, scale))
    if name == "std_beta":
        return plain(T(shape, shape))
    if name == "beta":
        return plain(T(shape, shape, _range2(fit)).map(lambda t: (t[0], t[1]) + t[2]))
    if name == "pareto":
        return plain(T(shape, scale))
    if name == "chisquared":
        k = st.one_of(_pick(0.5, 1.0, 2.0, 5.0), _logu(math.log10(0.4), 2)) if fit else \
            st.one_of(_pick(0.1, 0.5, 1.0, 2.0 - 2 * EPS, 2.0, 3.0, 1e3), _logu(-1, 3))
        return plain(T(k))
    if name == "F_dist":
        return plain(T(df, df))
    if name == "std_t_dist":
        return plain(T(df))
    if name == "t_dist":
        return plain(T(loc, scale, df))
    if name == "bernoulli":
        return plain(T(FIT_PROB if fit else PROB01))
    if name == "geometric":
        return plain(T(st.one_of(_pick(0.5, 0.1, 0.9), _f(0.02, 0.99)) if fit else PROB1))
    if name == "binomial":
        if fit:
            return plain(T(st.one_of(_pick(1, 2, 10), st.integers(1, 100)), st.one_of(FIT_PROB, _pick(1.0))))
        return plain(T(st.one_of(_pick(1, 1, 2, 1000), st.integers(1, 300)), PROB1))
    if name in ("negative_binomial", "pascal"):
        if fit:
            return plain(T(st.one_of(_pick(1, 2, 5), st.integers(1, 20)), st.one_of(_pick(0.5, 0.9), _f(0.1, 0.99))))
        return plain(T(st.one_of(_pick(1, 1, 2, 50), st.integers(1, 100)), PROB1))
    if name == "poisson":
        if fit:
            return plain(T(st.one_of(_pick(0.1, 1.0, 4.0, 30.0), _logu(-2, 2))))
        return plain(T(st.one_of(_pick(1e-300, 1e-6, 0.5, 1.0, 10.0, 1000.0), _logu(-6, 3))))
    if name == "dice":
        if fit:
            return plain(T(st.integers(-50, 50), _pick(1, 1, 2, 5, 99)).map(lambda t: (t[0], t[0] + t[1])))
        off = st.one_of(_pick(0, 1, -3, 2 ** 31, -2 ** 31, 2 ** 52, -2 ** 52, 2 ** 53, -2 ** 53, 2 ** 53 + 2),
                        st.integers(-1000, 1000))
        wid = st.one_of(_pick(1, 1, 2, 5, 6, 2 ** 40), st.integers(1, 1000))
        return plain(T(off, wid).map(lambda t: (t[0], t[0] + t[1])))
    if name == "loaded_dice":
        return st.one_of(_pvec(fit), _pvec_special(fit)).map(lambda p: (["pv"], {"pv": p}))
    if name == "alias_sample":
        gen = st.tuples(st.one_of(_pick(1, 2, 3, 255, 256, 257, 300), st.integers(1, 300)), st.integers(0, 2 ** 32 - 1)).map(
            lambda t: _alias_weights(t[0], t[1], fit))
        pv = st.one_of(gen, gen, _pvec(fit, 30), _pvec_special(fit))
        return pv.map(lambda p: (["al"], {"pv": p, "@al": "pv"}))
    raise KeyError(name)


CHECKED = [n for n in SAMPLERS if n not in ("sfc64", "curseed")]
SEEDS = st.one_of(st.integers(0, MASK), _pick(0, 1, MASK))

# a raw draw substituted for ONE draw (position 0..3) of every call ("forced" cases)
FORCED_VALUES = [0, MASK, 0x7FF, MASK ^ 0x7FF, 1 << 11, 0xFF, MASK ^ 0xFF, 1 << 63, (1 << 63) - 1, 0x100, 0xFE]


def _cost(name, args):
    if name in ("binomial", "erlang", "negative_binomial", "pascal"):
        return max(1, int(args[0]))
    if name == "poisson":
        return 1 + int(args[0])
    return 3


def _case(name, kind, tier):
    fit = kind == "fit"

    def build(t):
        (args, vecs), seed, fp, forced, aliasfp = t
        nbins = 0
        if fit:
            n = QUICK_FIT_N if tier == "quick" else THOROUGH_FIT_N
            n = int(max(20000, min(n, 4e7 / _cost(name, args))))
            variant, fp, forced, aliasfp = "rel", "masked", None, "masked"
            if SAMPLERS[name][1] == "d" and name not in ("hypoexponential", "hyperexponential"):
                nbins = QUICK_BIN_N if tier == "quick" else THOROUGH_BIN_N
                nbins = int(min(nbins, 4e8 / _cost(name, args)))
        elif kind == "forced":
            n, variant = 1, "asan"
            if name == "pareto":        # mode * (2^53)^(1/shape) must stay below DBL_MAX
                args = [max(args[0], 0.1), args[1]]
        else:
            n = 2000 if tier == "quick" else 20000
            n = int(max(200, min(n, 2e6 / _cost(name, args))))
            variant, forced = "asan", None
        return dict(sampler=name, args=args, vecs=vecs, seed=seed, fp=fp, n=n, kind=kind, variant=variant,
                    forced=forced, aliasfp=aliasfp if name == "alias_sample" else "masked", nbins=nbins)
    return st.tuples(_params(name, fit), SEEDS, _pick("masked", "trap"),
                     st.tuples(_pick(0, 0, 0, 1, 1, 2, 3), st.sampled_from(FORCED_VALUES)),
                     _pick("masked", "masked", "trap")).map(build)


def _build_strategy(tier):
    # .map() keeps Hypothesis from flattening the nested one_of, so the weights below hold
    # distinct strategy objects (one_of drops repeated ones): 9/14 support, 3/14 fit (0.05 - 0.5 s each:
    # most of the time budget), 2/14 forced
    cases = {k: [_case(n, k, tier) for n in CHECKED if not (k == "forced" and n == "flip")]
             for k in ("support", "fit", "forced")}

    def group(kind):
        return st.one_of(*cases[kind]).map(lambda c: dict(c))
    return st.one_of(*([group("support") for _ in range(9)] + [group("fit") for _ in range(3)]
                       + [group("forced") for _ in range(2)]))


_STRATS = {}


def strategy(tier):
    if tier not in _STRATS:
        _STRATS[tier] = _build_strategy(tier)
    return _STRATS[tier]


def _argtok(x):
    return fhex(x) if isinstance(x, float) else str(x)


def serialize(case):
    L = ["mode random", "variant " + case["variant"], "check " + case["kind"], "fp " + case["fp"]]
    if case["aliasfp"] != "masked":
        L.append("aliasfp " + case["aliasfp"])
    for k, v in case["vecs"].items():
        if not k.startswith("@"):
            L.append("vec %s %s" % (k, " ".join(fhex(x) for x in v)))
    for k, v in case["vecs"].items():
        if k.startswith("@"):
            L.append("alias %s %s" % (k[1:], v))
    L.append("segment main")
    L.append("seed %d" % case["seed"])
    name = case["sampler"]
    mode = "emit"
    if case["kind"] == "fit" and SAMPLERS[name][1] == "i":
        mode = "hist"
    line = "%s %d %s" % (mode, case["n"], " ".join([name] + [_argtok(a) for a in case["args"]]))
    if case["forced"]:
        line += " force=%d:%x" % tuple(case["forced"])
    L.append(line.rstrip())
    if case.get("nbins"):
        # a second, larger sample that the executor only counts into bins; the edges are quantiles of the
        # stated law, computed in evaluate() ("edges=auto") so that generation stays cheap
        L.append("segment main")
        L.append("seed %d" % (case["seed"] ^ 0x5DEECE66D))
        L.append("bins %d %s edges=auto" % (case["nbins"], " ".join([name] + [_argtok(a) for a in case["args"]])))
    return "\n".join(L) + "\n"


# ----------------------------------------------------------------------------
# oracle
# ----------------------------------------------------------------------------
def _parse(text):
    info = dict(variant="asan", kind="support", fp="masked", vecs={}, aliases={}, aliasfp="masked", forced=False)
    for ln in text.split("\n"):
        p = ln.split()
        if not p or p[0].startswith("#"):
            continue
        if p[0] in ("variant", "fp", "aliasfp"):
            info[p[0]] = p[1]
        elif p[0] == "check":
            info["kind"] = p[1]
        elif p[0] == "vec":
            info["vecs"][p[1]] = [float.fromhex(t) for t in p[2:]]
        elif p[0] == "alias":
            info["vecs"][p[1]] = info["vecs"][p[2]]
        elif p[0] == "seed":
            info["seed"] = int(p[1])
        elif p[0] == "bins":
            info["nbins"] = int(p[1])
        elif p[0] in ("emit", "hist"):
            info["mode"], info["n"], info["sampler"] = p[0], int(p[1]), p[2]
            sig = SAMPLERS[p[2]][0]
            args = []
            for c, tok in zip(sig, p[3:3 + len(sig)]):
                args.append(float.fromhex(tok) if c == "d" else int(tok) if c in "ul" else tok)
            info["args"] = args
            info["forced"] = any(t.startswith("force=") for t in p[3:])
            info["opline"] = ln
    return info


def _support_violation(m, name, x):
    """x: numpy array of returned values (float64 or int64). -> (label, index) of the first violation"""
    if m.kind == "c":
        bad = np.isnan(x)
        if bad.any():
            return "nan", int(np.argmax(bad))
        bad = np.isinf(x)
        if bad.any():
            return "infinite", int(np.argmax(bad))
        bad = x < m.lo
        if bad.any():
            return "below-" + ("zero" if m.lo == 0 else "minimum"), int(np.argmax(bad))
        bad = x > m.hi
        if bad.any():
            return "above-maximum", int(np.argmax(bad))
        return None
    if m.pmf_table is not None:
        n = len(m.pmf_table)
        bad = (x < 0) | (x >= n)
        if bad.any():
            return "index-out-of-range", int(np.argmax(bad))
        bad = m.pmf_table[x] <= 0.0
        if bad.any():
            return "zero-probability-index", int(np.argmax(bad))
        return None
    bad = x < m.lo
    if bad.any():
        return "below-minimum", int(np.argmax(bad))
    bad = x > m.hi
    if bad.any():
        return "above-maximum", int(np.argmax(bad))
    return None


def _moment_tests(m, n, mean, var):
    """z-scores where the normal approximation is trustworthy at |z| = 7"""
    out = {}
    mu, v, sk, ku = m.moments()
    if not (v is not None and np.isfinite([mu, v, sk, ku]).all()) or v <= 0:
        return out
    if abs(sk) <= 6.0 and ku <= 60.0 and (sk * sk) / n < 1e-3:
        out["mean"] = (mean - mu) / math.sqrt(v / n)
    if ku <= 12.0 and m.kind == "c" or (m.kind == "d" and ku <= 12.0):
        # var(s^2) ~ sigma^4 (kurt_excess + 2) / n ; needs light tails (8th moment), hence the kurtosis gate
        out["var"] = (var - v) / (v * math.sqrt((ku + 2.0) / n)) if ku + 2.0 > 0 else 0.0
    return out


def _fit_continuous(m, x):
    """-> dict test -> p-value (or z for mean/var, count for ties)"""
    n = len(x)
    res = {}
    c = np.asarray(m.cdf(x), dtype=float)
    i = np.arange(1, n + 1)
    ref = max([abs(b) for b in (m.lo, m.hi) if math.isfinite(b)] + [0.0])
    if ref > 0.0 and m.pclass == "shape<1":
        # density pole next to a non-zero end point (beta family): the doubles around it are wider apart than
        # the probability they have to carry; give every value the benefit of +-4 ulp (a lower bound for D)
        xs_ = np.sort(x)
        dx = 4.0 * np.spacing(np.maximum(np.abs(xs_), ref))
        d = max(float((i / n - np.asarray(m.cdf(xs_ + dx))).max()), float((np.asarray(m.cdf(xs_ - dx)) - (i - 1) / n).max()), 0.0)
    else:
        cs = np.sort(c)
        d = max(float((i / n - cs).max()), float((cs - (i - 1) / n).max()))
    res["ks"] = float(stats.kstwo.sf(d, n)) if d > 0 else 1.0
    K = 200
    cnt = np.bincount(np.minimum((c * K).astype(np.int64), K - 1), minlength=K)
    e = n / K
    res["chi2"] = float(stats.chi2.sf(float(((cnt - e) ** 2).sum() / e), K - 1))
    # tail cells, robust against the rounding of the returned double: a value counts as "certainly in
    # the cell" only if x +- delta (4 ulp of max(|x|, finite support bounds)) stays in it
    lo_c = x[c < 2.0 ** -7]
    up_c = x[c > 1.0 - 2.0 ** -7]
    d_lo = 4.0 * np.spacing(np.maximum(np.abs(lo_c), ref))
    d_up = 4.0 * np.spacing(np.maximum(np.abs(up_c), ref))
    lo_certain, lo_possible = np.asarray(m.cdf(lo_c + d_lo)), np.asarray(m.cdf(lo_c - d_lo))
    up_certain, up_possible = np.asarray(m.sf(up_c - d_up)), np.asarray(m.sf(up_c + d_up))
    ptail = 1.0
    for k in (8, 10, 12, 14, 16):
        q = 2.0 ** -k
        for certain, possible in ((lo_certain, lo_possible), (up_certain, up_possible)):
            too_many = float(stats.binom.sf(int((certain < q).sum()) - 1, n, q))
            too_few = float(stats.binom.cdf(int((possible < q).sum()), n, q))
            ptail = min(ptail, 2.0 * min(too_many, too_few))
    res["tail"] = min(1.0, ptail * 10)
    xm = x.astype(np.float64)
    z = _moment_tests(m, n, float(xm.mean()), float(xm.var(ddof=1)))
    res.update(z)
    mid = x[(c > 0.005) & (c < 0.995)]
    ties = int(len(mid) - len(np.unique(mid)))
    if ties > TIE_LIMIT and m.dist is not None:
        # coincidences the stated law itself produces on the grid of doubles: each value x stands for
        # an interval of width >= spacing(max(|x|, finite support bounds)); expected number of equal
        # pairs ~ n/2 * mean(pdf * spacing). Judge only the excess (factor 4 margin on the estimate).
        lam = 0.5 * len(mid) * float(np.sum(m.dist.pdf(mid) * np.spacing(np.maximum(np.abs(mid), ref))))
        if stats.poisson.sf(ties - 1, 4.0 * lam + 0.01) >= P_FAIL:
            ties = 0
    res["ties"] = ties
    return res, d


def _edges(m):
    """bin edges for the executor: 255 inner quantiles i/256 and the tail quantiles 2^-k, k = 10..16; edges
    (the deep tail cells down to 2^-22 are what resolves a truncated or folded far tail of a ziggurat sampler
    in the large binned samples of the fixed cases: 1e8 draws put about 24 values beyond the 2^-22 quantile)
    closer than 1e-9 (relative to the support) to a finite support bound are dropped, there the density may
    have a pole and neighbouring doubles are wider apart than the cells"""
    if m.dist is None:
        return None
    with np.errstate(all="ignore"):
        qs = np.arange(1, 256) / 256.0
        tails = np.array([2.0 ** -k for k in (10, 12, 14, 16, 18, 20, 22)])
        e = np.concatenate([m.dist.ppf(qs), m.dist.ppf(tails), m.dist.isf(tails)])
    e = np.unique(e[np.isfinite(e)])
    width = (m.hi - m.lo) if math.isfinite(m.hi - m.lo) else 0.0
    tol = 1e-9 * max([abs(b) for b in (m.lo, m.hi) if math.isfinite(b)] + [width])
    if math.isfinite(m.lo):
        e = e[e > m.lo + tol]
    if math.isfinite(m.hi):
        e = e[e < m.hi - tol]
    return e if len(e) >= 8 else None


def _fit_binned(m, edges, b):
    """tests on the executor's bin counts (n = 2e6 .. 1e8)"""
    cnt = b["counts"].astype(np.float64)
    n = float(cnt.sum())
    res = {}
    F = np.asarray(m.cdf(edges), dtype=float)
    S = np.asarray(m.sf(edges), dtype=float)
    # cell probabilities, from the cdf below the median and from the sf above it (no cancellation in the tails)
    p = np.empty(len(edges) + 1)
    p[0], p[-1] = F[0], S[-1]
    low = F[1:] <= 0.5
    p[1:-1] = np.where(low, F[1:] - F[:-1], S[:-1] - S[1:])
    # binned Kolmogorov-Smirnov: the largest deviation at the edges is a lower bound for D
    cum = np.cumsum(cnt)[:-1] / n
    dlow = np.abs(cum - F)
    dup = np.abs((1.0 - cum) - S)
    d = float(np.where(F <= 0.5, dlow, dup).max())
    res["ksN"] = float(stats.kstwo.sf(d, int(n))) if d > 0 else 1.0
    # chi-square, adjacent cells pooled to expectation >= 50
    co, ce = [], []
    ao = ae = 0.0
    for o, e in zip(cnt, n * p):
        ao += o
        ae += e
        if ae >= 50.0:
            co.append(ao)
            ce.append(ae)
            ao = ae = 0.0
    if co and (ao > 0 or ae > 0):
        co[-1] += ao
        ce[-1] += ae
    co, ce = np.array(co), np.array(ce)
    if len(ce) >= 2:
        res["chi2N"] = float(stats.chi2.sf(float(((co - ce) ** 2 / ce).sum()), len(ce) - 1))
    # tails: exact binomial tests of the cumulative counts outside the edges with F or S <= 2^-10
    ptail, ncells = 1.0, 0
    ccum = np.cumsum(cnt)
    rcum = np.cumsum(cnt[::-1])[::-1]
    for i in range(len(edges)):
        for q, k in ((F[i], ccum[i]), (S[i], rcum[i + 1])):
            if 0.0 < q <= 2.0 ** -10 * 1.0001:
                ncells += 1
                ptail = min(ptail, 2.0 * min(float(stats.binom.sf(k - 1, int(n), q)), float(stats.binom.cdf(k, int(n), q))))
    if ncells:
        res["tailN"] = min(1.0, ptail * ncells)
    mean = b["sum"] / n
    var = (b["sumsq"] - b["sum"] * b["sum"] / n) / (n - 1.0)
    for k, z in _moment_tests(m, n, mean, var).items():
        res[k + "N"] = z
    return res


def _fit_discrete(m, hist):
    n = sum(hist.values())
    keys = np.array(sorted(hist), dtype=np.int64)
    cnt = np.array([hist[int(k)] for k in keys], dtype=np.float64)
    res = {}
    if m.pmf_table is not None:
        ks = np.arange(len(m.pmf_table))
        pm = np.asarray(m.pmf_table)
    else:
        lo = int(m.lo)
        hi = int(min(m.hi, max(int(keys.max()), lo) + 5, lo + 200000))
        ks = np.arange(lo, hi + 1)
        pm = m.dist.pmf(ks)
    obs = np.zeros(len(ks))
    idx = keys - ks[0]
    inside = (idx >= 0) & (idx < len(ks))
    obs[idx[inside]] = cnt[inside]
    exp = n * pm
    # pool consecutive cells until each has expectation >= 50; the remainder (incl. the unlisted tail) goes last
    cells_o, cells_e = [], []
    ao = ae = 0.0
    for o, e in zip(obs, exp):
        ao += o
        ae += e
        if ae >= 50.0:
            cells_o.append(ao)
            cells_e.append(ae)
            ao = ae = 0.0
    ao += float(cnt[~inside].sum())
    ae += max(0.0, n - float(exp.sum()))
    if cells_e and (ae < 50.0):
        cells_o[-1] += ao
        cells_e[-1] += ae
    elif ae > 0 or ao > 0:
        cells_o.append(ao)
        cells_e.append(ae)
    cells_o, cells_e = np.array(cells_o), np.array(cells_e)
    if len(cells_e) >= 2 and (cells_e > 0).all():
        stat = float(((cells_o - cells_e) ** 2 / cells_e).sum())
        res["chi2"] = float(stats.chi2.sf(stat, len(cells_e) - 1))
    mean = float((keys * cnt).sum() / n)
    var = float((cnt * (keys - mean) ** 2).sum() / (n - 1))
    res.update(_moment_tests(m, n, mean, var))
    return res


def _failed_tests(res):
    bad = []
    for k, v in res.items():
        if k in ("mean", "var", "meanN", "varN"):
            if abs(v) > Z_FAIL:
                bad.append(k)
        elif k == "ties":
            if v > TIE_LIMIT:
                bad.append(k)
        elif v < P_FAIL:
            bad.append(k)
    return bad


def _fit_range(name, a, vecs):
    """parameter vectors for which the fit tests are meaningful with doubles: the support holds
    >> n distinct doubles, no mass under/overflows, scipy's cdf is accurate"""
    if name in ("uniform", "beta"):
        lo, hi = (a[0], a[1]) if name == "uniform" else (a[2], a[3])
        if (hi - lo) < 1e-3 * max(abs(lo), abs(hi)):
            return False
    if name in ("triangular", "PERT", "PERT_mod"):
        if (a[2] - a[0]) < 1e-3 * max(abs(a[0]), abs(a[2])) or min(a[1] - a[0], a[2] - a[1]) < 1e-6 * (a[2] - a[0]):
            return False
    if name in ("normal", "logistic", "cauchy", "t_dist") and a[1] < 1e-3 * abs(a[0]):
        return False
    if name == "lognormal" and a[1] < 1e-3:
        return False
    return True


def _sample_stats(info, tr):
    o = tr.outs[0]
    kind = SAMPLERS[info["sampler"]][1]
    if o.tag == "h":
        return o, None, o.hist()
    x = o.values_f64() if kind == "d" else o.values_i64()
    return o, x, None


def _derived_seed(text):
    return int(hashlib.sha256(text.encode()).hexdigest()[:16], 16)


def _run(text, ctx, variant):
    res = ctx.run(text, variant)
    if res.parse_error:
        raise RuntimeError("generator produced an unparsable case:\n%s\n%s" % (text, res.lines[-3:]))
    return res


def _hot_class(name, o):
    if name in ("std_normal", "std_exponential") and o.calls >= 100000:
        return ["hot-path %s=%.1f%%" % (name, round(200.0 * o.one / o.calls) / 2.0)]
    return []


def evaluate(text, ctx):
    out = _evaluate(text, ctx)
    if not out.ok and " force=" in text:
        # does the failure need the substituted raw draws at all?
        plain = "\n".join(ln.split(" force=")[0] for ln in text.split("\n"))
        out2 = _evaluate(plain, ctx)
        if not out2.ok:
            return out2
    return out


def _with_edges(text, m):
    """replace 'edges=auto' by a vector of quantiles of the stated law (or drop the bins segment)"""
    if "edges=auto" not in text:
        return text, None
    with np.errstate(all="ignore"):
        e = _edges(m)
    lines = text.split("\n")
    if e is None:
        k = max(i for i, ln in enumerate(lines) if ln.startswith("segment "))
        return "\n".join(lines[:k]) + "\n", None
    k = min(i for i, ln in enumerate(lines) if ln.startswith("segment "))
    lines.insert(k, "vec edges_auto " + " ".join(fhex(float(v)) for v in e))
    return "\n".join(lines).replace("edges=auto", "edges=edges_auto"), e


def _evaluate(text, ctx):
    info = _parse(text)
    name, args, vecs = info["sampler"], info["args"], info["vecs"]
    m = _model(name, args, vecs)
    in_fit_range = info["kind"] != "fit" or (_fit_range(name, args, vecs) and not (m.kind == "c" and m._cdf is None and m.dist is None))
    if not in_fit_range and "edges=auto" in text:
        text = text[:text.rindex("segment ")]
    text, edges = _with_edges(text, m)
    res = _run(text, ctx, info["variant"])
    if res.timed_out:
        return Outcome(ok=True, inconclusive=True)
    tag = name + ("[%s]" % m.pclass if m.pclass else "")
    classes = ["%s/%s" % (info["kind"], name), "kind=" + info["kind"], "fp=" + info["fp"]]
    if m.pclass:
        classes.append("%s[%s]" % (name, m.pclass))
    tr = Trace(res)
    if res.crashed:
        where = "alias_create" if tr.last_mark == "alias_create" else tag
        kind, site = res.crash_signature()
        out = crash_outcome(res, "crash")
        if info["forced"]:
            out.sig = "forced-crash/%s" % (site if site.startswith(("cmb_", "cmi_")) else where)
        else:
            out.sig = "crash/%s/%s" % (where, site)
        out.msg = "cmb_random_%s(%s), fp %s%s: %s" % (name, ", ".join(map(str, args)), info["fp"] if where != "alias_create" else "aliasfp " + info["aliasfp"],
                                                       ", one forced raw draw" if info["forced"] else "", out.msg)
        out.classes = tuple(classes)
        return out
    if tr.exceeded:
        e = tr.exceeded[0]
        return Outcome(ok=False, sig="nontermination/%s%s" % (tag, "/forced" if info["forced"] else ""), classes=classes,
                       msg="cmb_random_%s(%s) consumed more than %d raw draws in call %d"
                           % (name, ", ".join(map(str, args)), e[5] - 1, e[4]))
    if not tr.hook:
        classes.append("no-draw-hook")
    o, x, hist = _sample_stats(info, tr)
    if hist is not None:
        if "lost" in hist:
            raise RuntimeError("value table overflow, generator should use emit: " + text)
        xs = np.array(sorted(hist), dtype=np.int64)
    else:
        xs = x
    sv = _support_violation(m, name, xs)
    big = None
    if sv is None and edges is not None and len(tr.outs) > 1 and tr.outs[1].tag == "b":
        big = tr.outs[1].bins()
        if big["nan"]:
            sv, xs = ("nan", 0), np.array([math.nan])
        else:
            xs = np.array([big["min"], big["max"]])
            sv = _support_violation(m, name, xs)
    if sv is not None:
        label, idx = sv
        prefix = "support-forced" if info["forced"] else "support"
        return Outcome(ok=False, sig="%s/%s/%s" % (prefix, tag, label), classes=classes,
                       msg="cmb_random_%s(%s) returned %r (value #%d of the batch, seed %d, fp %s%s): outside the support [%s, %s]%s"
                           % (name, ", ".join(repr(a) if not isinstance(a, str) else "%s=%r" % (a, vecs[a]) for a in args),
                              xs[idx].item(), idx, info["seed"], info["fp"],
                              ", one forced raw draw" if info["forced"] else "", m.lo, m.hi,
                              " of non-zero probabilities" if m.pmf_table is not None else ""),
                       detail=info["opline"])
    nvals = o.calls
    if info["kind"] != "fit":
        return Outcome(ok=True, nontrivial=nvals >= 1000, classes=classes)
    if not in_fit_range:
        classes.append("fit-skipped-out-of-fit-range")
        return Outcome(ok=True, nontrivial=nvals >= 1000, classes=classes)
    classes += _hot_class(name, o)

    def tests(xv, hv, bv=None):
        if m.kind == "c":
            if m._cdf is None and m.dist is None:
                n = len(xv)
                return _moment_tests(m, n, float(xv.mean()), float(xv.var(ddof=1)))
            r = _fit_continuous(m, xv)[0]
            if bv is not None:
                r.update(_fit_binned(m, edges, bv))
            return r
        if hv is None:
            ks, cn = np.unique(xv, return_counts=True)
            hv = dict(zip(ks.tolist(), cn.tolist()))
        return _fit_discrete(m, hv)

    with np.errstate(all="ignore"):
        r1 = tests(x, hist, big)
    bad1 = _failed_tests(r1)
    if big is not None:
        classes.append("fit-binned-sample")
        nvals += int(big["counts"].sum())
    classes.append("fit-tests-run")
    if not bad1:
        return Outcome(ok=True, nontrivial=True, classes=classes)
    # second, independent sample
    seed2 = _derived_seed(text)
    text2 = "\n".join(("seed %d" % ((seed2 + 977 * i) & MASK)) if ln.startswith("seed ") else ln
                      for i, ln in enumerate(text.split("\n")))
    res2 = _run(text2, ctx, info["variant"])
    t2 = Trace(res2)
    if not res2.completed or not t2.outs:
        return Outcome(ok=True, inconclusive=True, classes=classes)
    _o2, x2, h2 = _sample_stats(info, t2)
    big2 = t2.outs[1].bins() if big is not None and len(t2.outs) > 1 else None
    with np.errstate(all="ignore"):
        r2 = tests(x2, h2, big2)
    bad2 = [t for t in _failed_tests(r2) if t in bad1]
    classes.append("fit-first-stage-rejections")
    if not bad2:
        return Outcome(ok=True, nontrivial=True, classes=classes)
    t = bad2[0]
    # failures that only the large binned sample resolves get their own signature, so that a known small
    # deviation (n >~ 5e6 needed) does not hide a gross one in the same sampler
    family = "fit-large-sample" if all(b.endswith("N") for b in bad2) else "fit"
    return Outcome(ok=False, sig="%s/%s" % (family, tag), classes=classes,
                   msg="cmb_random_%s(%s): %s test rejects the stated law on two independent seeds (%d and %d), n = %d: "
                       "first %s, second %s" % (name, ", ".join(repr(a) if not isinstance(a, str) else "%s=%r" % (a, vecs[a]) for a in args),
                                                t, info["seed"], seed2, nvals,
                                                {k: ("%.3g" % v) for k, v in r1.items()}, {k: ("%.3g" % v) for k, v in r2.items()}),
                   detail=info["opline"])


# ----------------------------------------------------------------------------
# deterministic cases run in both tiers: every sampler at a canonical parameter vector
# ----------------------------------------------------------------------------
CANON = {
    "random": [], "uniform": [-1.0, 3.0], "triangular": [0.0, 1.0, 4.0], "std_normal": [], "normal": [10.0, 2.0],
    "lognormal": [1.0, 0.5], "logistic": [0.0, 1.0], "cauchy": [0.0, 1.0], "std_exponential": [],
    "exponential": [2.0], "erlang": [3, 2.0], "std_gamma": [2.5], "gamma": [0.5, 2.0], "std_beta": [2.0, 3.0],
    "beta": [2.0, 5.0, -1.0, 1.0], "PERT_mod": [0.0, 1.0, 4.0, 2.0], "PERT": [0.0, 1.0, 4.0],
    "weibull": [2.0, 10.0], "pareto": [3.0, 1.0], "chisquared": [3.0], "F_dist": [4.0, 9.0], "std_t_dist": [5.0],
    "t_dist": [1.0, 2.0, 5.0], "rayleigh": [2.0], "flip": [], "bernoulli": [0.3], "geometric": [0.25],
    "binomial": [10, 0.4], "negative_binomial": [3, 0.4], "pascal": [3, 0.4], "poisson": [4.0], "dice": [1, 6],
}


CANON_VECS = {
    "hypoexponential": (["mv"], {"mv": [1.0, 2.0, 4.0]}),
    "hyperexponential": (["mv", "pv"], {"mv": [1.0, 3.0, 0.5], "pv": [0.5, 0.25, 0.25]}),
    "loaded_dice": (["pv"], {"pv": [0.125, 0.5, 0.0, 0.25, 0.125]}),
    "alias_sample": (["al"], {"pv": [0.125, 0.5, 0.0, 0.25, 0.125], "@al": "pv"}),
}


def fixed_cases(tier):
    """(1) the samplers everything else is built on, with a large binned sample (1e8 quick / 3.4e8 thorough, with tail cells down to the 2^-22 quantiles);
    (2) one fit case per sampler at a canonical parameter vector, so that every sampler is fit-tested in
    every run whatever the generator happens to draw"""
    out = []
    big = dict((("std_normal", 1e8), ("std_exponential", 2.5e8), ("random", 1e7), ("std_gamma", 5e6)))
    scale = 1 if tier == "quick" else 3.4
    for i, name in enumerate(CHECKED):
        args, vecs = CANON_VECS[name] if name in CANON_VECS else (CANON[name], {})
        cont = SAMPLERS[name][1] == "d" and name not in ("hypoexponential", "hyperexponential")
        c = dict(sampler=name, args=args, vecs=vecs, seed=1000 + i, fp="masked", kind="fit", variant="rel",
                 forced=None, aliasfp="masked", n=int(100000 * scale),
                 nbins=int(big.get(name, 1e6) * scale) if cont else 0)
        out.append(serialize(c))
    return out
