"""C06 - waiters are served by priority, then by waiting time; priority changes reorder."""
from .. import simprop

ID = "C06"
FAMILY = "C06"
VARIANTS = ("asan", "rel")      # rel: only to re-judge a case that UBSan stopped (simprop)
BUDGET = {"quick": dict(examples=80000, seconds=55), "thorough": dict(examples=2000000, seconds=540)}
NONTRIVIAL = {'reprioritised-waiter', 'c06-three-waiters'}
PROFILES = [(4, 'queueing'), (1, 'mixed')]
RULE = ("Hypothesis-generated scenarios (profile queueing 80%, mixed 20%): 3-12 processes queueing on resources, pools, buffers (both ends), object and priority queues (both ends) and conditions, arrivals on distinct and equal instants, priorities incl. int64 extremes, set_priority on blocked processes, departures by grant / interrupt / timeout. Oracle: whenever a waiter W that had to wait is served (its call returns SUCCESS), no process V may still be blocked on the same waiting list that started waiting at a strictly earlier instant, whose priority did not change in this instant, and that has higher priority than W or equal priority and an earlier start (for conditions V's predicate must have been true at a signal of the instant). Non-trivial = at least three simultaneous waiters on one list when someone is served, or a blocked process was reprioritised. distinct = SHA-1 of the scenario text.")
RULE = RULE + simprop.RULE_SUFFIX
ASSUMPTIONS = ["trace oracles in pbt/simtrace.py (soundness rules DESIGN.md par. 2.1)",
               "operations whose documented precondition is false when reached are skipped by the interpreter "
               "(counted), never executed"]


def strategy(tier):
    return simprop.strategy_for(PROFILES, tier)


def serialize(case):
    return case


def evaluate(text, ctx):
    return simprop.evaluate_family(text, ctx, FAMILY, NONTRIVIAL)
