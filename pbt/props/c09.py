"""C09 - ending a process notifies waiters once, frees holdings, silences its events."""
from .. import simprop

ID = "C09"
FAMILY = "C09"
VARIANTS = ("asan", "rel")      # rel: only to re-judge a case that UBSan stopped (simprop)
BUDGET = {"quick": dict(examples=80000, seconds=55), "thorough": dict(examples=2000000, seconds=540)}
NONTRIVIAL = {'restart', 'end-with-obligations', 'end-with-waiters'}
PROFILES = [(4, 'lifecycle'), (2, 'timing'), (1, 'mixed')]
RULE = ('Hypothesis-generated scenarios (profiles lifecycle 57%, timing 29%, mixed 14%): processes ending by return / exit / stop-by-other / stop-self while running, holding resources and pool units, blocked on any wait, with timers armed and wake-ups pending, with waiters, followed by restarts. Oracle: every waiter returns once in the end instant with SUCCESS (normal end) or STOPPED (stop) or leaves for another ledgered reason; after the end event the library attributes no holding to the ended process, no event with it as subject remains, it produces no further trace record, status is FINISHED and the exit value is the returned / exited / stopped value; a restarted process enters its function with its own handle and context and nothing held. Non-trivial = the ending process had holdings, timers or a wait in progress, or had waiters, or was restarted. distinct = SHA-1 of the scenario text.')
RULE = RULE + simprop.RULE_SUFFIX
ASSUMPTIONS = ["trace oracles in pbt/simtrace.py (soundness rules DESIGN.md par. 2.1)",
               "operations whose documented precondition is false when reached are skipped by the interpreter "
               "(counted), never executed"]


def strategy(tier):
    return simprop.strategy_for(PROFILES, tier)


def serialize(case):
    return case


def evaluate(text, ctx):
    return simprop.evaluate_family(text, ctx, FAMILY, NONTRIVIAL)
