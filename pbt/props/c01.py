"""C01 - events run exactly once, in (time, priority, FIFO) order; clock monotone.

Generated: histories of schedule / cancel / reschedule / reprioritise / pattern
find|count|cancel / clear / execute_next / run, issued from the top level and
from inside running event actions (nested bodies, two levels), with ties on
time and on time+priority, zero increments, negative and huge start times,
+inf, int64 extremes, wildcard patterns over small subject/object tables, and
bursts that cross every capacity doubling of the queue (8, 16, ..., 256).
Oracle: reference model inside the executor (harness/m_event.c).
"""
from hypothesis import strategies as st

from ..common import crash_outcome, fhex, parse_kv, squash
from ..runner import Outcome

ID = "C01"
VARIANTS = {"quick": ("asan",), "thorough": ("asan", "fuzz")}
BUDGET = {"quick": dict(examples=120000, seconds=55),
          "thorough": dict(examples=3000000, seconds=420)}
RULE = ("Hypothesis-generated op trees (top-level ops and ops executed from inside event actions) on the "
        "real event queue; after every op the model (array of pending events, min by time asc / priority "
        "desc / order of issue) is compared with queue_count, is_scheduled/time/priority of every handle ever "
        "issued, event_current, and at each action the invoked (action, subject, object), cmb_time() and "
        "event_current. Non-trivial = a tie on time+priority, or a mutation from inside an action, or a "
        "growth step, or a pattern matching >= 2 pending events. About one case in eight is a simulation scenario "
        "(processes holding, waiting for user events, timers, interrupts: the wake-up events the library schedules "
        "itself), judged for the clock (never decreases, equals the scheduled time inside a user event) and for user "
        "events running exactly once; non-trivial there = somebody waited for an event, or a timer / interrupt was "
        "used. distinct = SHA-1 of the case text.")
ASSUMPTIONS = ["reference model in harness/m_event.c is correct",
               "times are never NaN and never below the clock; reschedule/reprioritise/time/priority only "
               "on pending handles (documented preconditions)",
               "cmb_event_cancel is documented to return false for a handle that is not scheduled, so it "
               "is called with executed, cancelled and never-issued handles, also on an empty queue"]

DTS = [0.0, 0.0, 1.0, 1.0, 2.0, 2.0 ** -30, 1e300, float("inf")]
PRIOS = st.one_of(st.sampled_from([-1, 0, 0, 1, 1, "min", "max"]),
                  st.integers(-2 ** 63, 2 ** 63 - 1))
VAL = st.sampled_from([0, 1, 2, 3])
OBJ = st.sampled_from([0, 1, 2, 3, "u", "u"])
PATV = st.sampled_from(["*", "*", 0, 1, 2, 3])
REF = st.one_of(st.integers(0, 30), st.integers(0, 30), st.just(1000000))


def _simple_ops():
    return st.one_of(
        st.tuples(st.just("cancel"), REF),
        st.tuples(st.just("resched"), st.integers(0, 30), st.sampled_from(DTS)),
        st.tuples(st.just("reprio"), st.integers(0, 30), PRIOS),
        st.tuples(st.sampled_from(["pfind", "pcount", "pcancel"]),
                  st.sampled_from(["*", "*", 0, 1, 2]), PATV, PATV),
        st.just(("query",)),
    )


def _sched(body):
    return st.tuples(st.just("sched"), st.integers(0, 2), VAL, OBJ, st.sampled_from(DTS), PRIOS, body)


def _storm():
    """6-14 events at generated distinct-ish times (so that the heap array takes many shapes), half of them
    with the same subject, then a pattern cancel / count / find on that subject, then queries"""
    one = st.tuples(st.just("sched"), st.integers(0, 2), st.sampled_from([0, 0, 1]), st.just("u"),
                    st.integers(1, 12).map(float), st.sampled_from([0, 0, 0, 1]), st.just([]))
    return st.tuples(st.just("seq"), st.lists(one, min_size=6, max_size=14),
                     st.sampled_from(["pcancel", "pcancel", "pcount", "pfind"]), st.sampled_from([0, 0, 1]))


def _ops(level):
    if level >= 2:
        body = st.just([])
    else:
        body = st.one_of(st.just([]), st.just([]), st.lists(st.deferred(lambda: _op(level + 1)), max_size=5))
    return body


def _op(level):
    base = [_sched(_ops(level)), _sched(_ops(level)), _sched(_ops(level)), _simple_ops(), _simple_ops()]
    if level == 0:
        base += [st.tuples(st.just("exec"), st.integers(1, 4)),
                 st.tuples(st.just("exec"), st.integers(1, 4)),
                 st.just(("run",)), _storm(),
                 st.tuples(st.just("burst"), st.sampled_from([3, 7, 8, 9, 17, 33, 65, 300]),
                           st.lists(_sched(st.just([])), min_size=1, max_size=3))]
    base += [st.sampled_from([("clear",), ("query",), ("query",), ("query",), ("query",), ("query",)])]
    return st.one_of(*base)


def strategy(tier):
    start = st.sampled_from([0.0, 0.0, 0.0, -5.0, -1e9, 1e15])
    ev = st.tuples(start, st.lists(_op(0), min_size=1, max_size=30))
    # about one case in eight: the event queue as the simulation engine drives it - processes holding, waiting
    # for user events, timers, interrupts (the library schedules wake-up events itself); judged for the clock
    # (never decreases, equals the scheduled time inside a user event) and for user events running once
    from .. import simgen, simprop
    sim = simprop.trusting(st.one_of(simgen.scenario("timing"), simgen.scenario("timing"), simgen.coincide()))
    return st.one_of(*([ev] * 7 + [sim]))


def _emit(lines, o, depth):
    pre = (">" * depth + " ") if depth else ""
    k = o[0]
    if k == "sched":
        lines.append("%ssched %d %s %s %s %s" % (pre, o[1], o[2], o[3], fhex(o[4]), o[5]))
        for b in o[6]:
            _emit(lines, b, depth + 1)
    elif k == "seq":
        for b in o[1]:
            _emit(lines, b, depth)
        lines.append("%s%s * %s *" % (pre, o[2], o[3]))
        lines.append(pre + "query")
    elif k == "burst":
        n, templ = o[1], o[2]
        for j in range(n):
            _emit(lines, templ[j % len(templ)], depth)
    elif k == "cancel":
        lines.append("%scancel @%d" % (pre, o[1]))
    elif k == "resched":
        lines.append("%sresched @%d %s" % (pre, o[1], fhex(o[2])))
    elif k == "reprio":
        lines.append("%sreprio @%d %s" % (pre, o[1], o[2]))
    elif k in ("pfind", "pcount", "pcancel"):
        lines.append("%s%s %s %s %s" % (pre, k, o[1], o[2], o[3]))
    elif k == "exec":
        lines.append("%sexec %d" % (pre, o[1]))
    else:
        lines.append(pre + k)


def serialize(case):
    if isinstance(case, str):
        return case
    start, ops = case
    lines = ["mode event", "start %s" % fhex(start)]
    for o in ops:
        _emit(lines, o, 0)
    return "\n".join(lines) + "\n"


def _category(msg):
    m = msg.split(": ", 1)[1] if ": " in msg else msg
    if m.startswith("wrong event ran"):
        return "wrong-event-ran"
    if m.startswith("event_current"):
        return "event_current" + ("-inside-action" if "inside action" in m else "")
    return squash(m, 40)


SIM_NONTRIVIAL = {"blocked-wait_ev", "nonsuccess-wait_ev", "timer", "interrupt"}


def evaluate(text, ctx):
    if text.startswith("mode sim"):
        from .. import simprop
        return simprop.evaluate_family(text, ctx, "C01", SIM_NONTRIVIAL)
    res = ctx.run(text, "asan")
    if res.parse_error:
        raise RuntimeError("generator produced an unparsable case:\n" + text)
    if res.timed_out:
        return Outcome(ok=True, inconclusive=True)
    if res.oracle_failed:
        f = res.fail_lines()
        msg = f[0] if f else "oracle failed without message"
        return Outcome(ok=False, sig="event/" + _category(msg), msg=msg, detail="\n".join(res.lines[-5:]))
    if res.crashed:
        return crash_outcome(res, "event-crash")
    n = {}
    for ln in res.lines:
        if ln.startswith("N "):
            n = parse_kv(ln)
    classes = []
    nt = False
    if n.get("tie_time", 0) > 0:
        classes.append("tie-time")
    if n.get("tie_tp", 0) > 0:
        classes.append("tie-time+prio"); nt = True
    if n.get("nested", 0) > 0:
        classes.append("nested-body-ran")
    if n.get("nested_mut", 0) > 0:
        classes.append("mutation-inside-action"); nt = True
    if n.get("growth", 0) > 0:
        classes.append("growth"); nt = True
    if n.get("growth", 0) > 2:
        classes.append("growth>=3")
    if n.get("multipat", 0) > 0:
        classes.append("pattern-multi"); nt = True
    if n.get("bigprio", 0) > 0:
        classes.append("int64-extreme-prio")
    if n.get("inf", 0) > 0:
        classes.append("inf-time")
    if n.get("ops", 0) and n.get("skipped", 0) * 5 > n.get("ops", 1):
        classes.append("skipped>20%")
    return Outcome(ok=True, nontrivial=nt, classes=classes)


def extra(tier, ctx, seed, deadline):
    """Thorough tier: structure-aware libFuzzer campaign on the same reference model."""
    if tier != "thorough" or "fuzz" not in ctx.build_dirs:
        return {}
    from .. import fuzz
    execs, failures, cov, raw = fuzz.campaign(ctx.build_dirs["fuzz"], "fuzz_event", seed, seconds=240, jobs=8,
                                              seed_inputs=[bytes([1, 2, 0, 17, 33, 5, 0, 0, 8, 3, 10, 1, 9]),
                                                           bytes([0, 0] + [0, 40, 7] * 20 + [5] * 10)])
    out = {"evaluations": execs, "coverage": cov, "failures": [(t, "libfuzzer", "oracle failed under libFuzzer") for t in failures]}
    if raw:
        cov["raw_crash_artifacts"] = raw
    return out
