"""C10 - valid programs never hit memory errors, undefined behaviour or library aborts.

Generated: (a) call sequences of the utility classes / containers from the generators of C20, C02, C01,
C18, C17 and (b) the union of all scenario profiles (every op passes the validity
filter of the interpreter or is skipped) plus stress scenarios that put
container populations on both sides of their growth thresholds. Oracle: how the
executor child ended - any ASan/UBSan report, SIGSEGV/SIGBUS/SIGFPE or abort
from a library assertion is a violation; signature = error kind + first library
frame / assertion site.
"""
from hypothesis import strategies as st

from .. import simgen, simprop

ID = "C10"
FAMILY = "C10"
VARIANTS = {"quick": ("asan",), "thorough": ("asan", "rel")}
BUDGET = {"quick": dict(examples=80000, seconds=55), "thorough": dict(examples=2000000, seconds=540)}
NONTRIVIAL = {"end-with-obligations", "blocked-wait_ev", "blocked-wait_proc", "delivered-interrupt",
              "restart", "stop-self", "stop-other", "wait-ended-by-timeout"}
RULE = ("Hypothesis-generated scenarios from every profile (timing, mutex, queueing, pool, wakeup, lifecycle, buffer, "
        "queue, condition, recording, mixed) executed under ASan+UBSan with the shipped assertion level; the oracle is "
        "the child's exit status (sanitizer report, fatal signal, abort from cmi_assert_failed = violation) including "
        "the teardown through the public API. Non-trivial = a process ended with obligations, a wait was cut short by "
        "timeout/interrupt, a process was stopped or restarted, or somebody waited for an event/process. About a "
        "sixth of the cases are valid call sequences of the utility classes and containers (memory pools of any object "
        "size, hashheap, event queue, datasets / time series / summaries) from the generators of C20, C02, C01, C18, "
        "C17, judged here only by how the run ends (each counts as non-trivial when it ran to completion). distinct = "
        "SHA-1 of the scenario text.")
ASSUMPTIONS = ["every generated op either satisfies its documented precondition when reached or is skipped",
               "ASan/UBSan (clang 14) with the guarded fiber annotations see what they need to see"]

_ALL = ["timing", "mutex", "queueing", "pool", "wakeup", "lifecycle", "buffer", "queue", "condition",
        "recording", "mixed"]


def _utility(tier):
    """Valid call sequences of the utility classes and of the containers underneath the engine (memory pools
    of any object size, hashheap, event queue, data arrays that double), taken from the generators of the
    properties that own them; here only the way the run ends is judged."""
    from . import c01, c02, c17, c18, c20
    return [m.strategy(tier).map(m.serialize) for m in (c20, c20, c02, c01, c18, c17)]


def strategy(tier):
    heavy = (tier == "thorough")
    big = [simgen.scenario(p, big=True) for p in _ALL] if heavy else []
    sims = simprop.trusting(st.one_of(*([simgen.scenario(p) for p in _ALL] + big + [simgen.stress(heavy)] * 4
                                        + [simgen.coincide()] * 2 + [simgen.crowd()] * 2
                                        + [simgen.churn(), simgen.deep()])))
    return st.one_of(*([sims] * 30 + _utility(tier)))


def serialize(case):
    return case


def fixed_cases(tier):
    """Deterministic boundary sweep of the thread-local tag pools (128 or 256 tags per chunk, the list of
    chunks grows at 64, 128, ... chunks): armed timers and queued objects on both sides of each threshold."""
    out = []
    for n in (127, 129, 8191, 8193, 16383, 16385, 16600, 24700):
        out.append("mode sim\nstart 0\nproc p0 prio 0 start 0 sprio 0\nop rep %d timer_add 0x1p0 3\n"
                   "op timers_clear\nop rep %d timer_add 0x1p0 3\nop hold 0x1p1\n" % (n, n // 2))
    for n in (255, 257, 16383, 16385, 32767, 32769, 33100, 49300):
        out.append("mode sim\nstart 0\noq Q0 unlimited\nproc p0 prio 0 start 0 sprio 0\nop rep %d oput Q0 1\n"
                   "op rep %d oget Q0\nop rep 300 oput Q0 2\n" % (n, n - 1))
    return out


def evaluate(text, ctx):
    mode = text.split("\n", 1)[0].strip()
    if mode != "mode sim":
        from ..common import crash_outcome
        from ..runner import Outcome
        res = ctx.run(text, "asan")
        if res.parse_error:
            raise RuntimeError("generator produced an unparsable case:\n" + text[:2000])
        if res.timed_out:
            return Outcome(ok=True, inconclusive=True, classes=["timeout"])
        if res.crashed:
            return crash_outcome(res, "util-crash/" + mode.replace("mode ", ""))
        return Outcome(ok=True, nontrivial=True, classes=["utility:" + mode.replace("mode ", "")])
    out = simprop.evaluate_family(text, ctx, FAMILY, NONTRIVIAL)
    if out.ok and ctx.tier == "thorough" and "rel" in ctx.build_dirs:
        # the shipped configuration (gcc -O3 -DNDEBUG): a crash or a library abort counts the same
        res = ctx.run(text, "rel")
        if res.crashed:
            from ..common import crash_outcome
            return crash_outcome(res, "sim-crash-rel")
        out.classes = tuple(out.classes) + ("also-run-on-rel",)
    return out
