"""C02 - the hashheap behaves as a keyed priority queue under any history.

Generated: operation histories over hashheaps obtained the way the library
obtains them (default order with initial exponent 1..6; a resource guard's
waiting list; a pool's holder list; a priority queue's heap), with automatically
issued keys and caller keys built to collide in the Fibonacci hash.
Oracle: the reference model inside the executor (harness/m_hashheap.c).
"""
from hypothesis import strategies as st

from ..common import crash_outcome, fhex, parse_kv, squash
from ..runner import Outcome

ID = "C02"
VARIANTS = {"quick": ("asan",), "thorough": ("asan", "fuzz")}
BUDGET = {"quick": dict(examples=150000, seconds=55),
          "thorough": dict(examples=4000000, seconds=420)}
RULE = ("Hypothesis-generated op histories (enq auto/caller-key, deq, rem, reprio, pattern find/count/"
        "cancel, clear, reset; bursts crossing capacity doublings) on default/guard/holders/pq hashheaps; "
        "every op is followed by a full cross-check against an array model. Non-trivial = at least one "
        "growth step, or a caller key re-inserted after removal, or two live keys sharing a home slot, "
        "or reprioritisation moving entries both up and down. distinct = SHA-1 of the case text.")
ASSUMPTIONS = ["reference model in harness/m_hashheap.c is correct",
               "NaN sort keys and key 0 are outside the documented domain and not generated",
               "item/dkey/ikey/reprioritize are only called on live keys (documented precondition)"]

DS = [0.0, 1.0, 2.0, 0.5, float("inf"), float("-inf"), 5e-324, 1e300, -1.0]
IS = [-1, 0, 1, 2, "min", "max"]
PL = [0, 1, 2]


def _enq():
    key = st.one_of(st.just("auto"), st.just("auto"),
                    st.builds(lambda g, n: "c%d.%d" % (g, n), st.integers(0, 3), st.integers(0, 5)))
    return st.tuples(st.just("enq"), key, st.sampled_from(DS), st.sampled_from(IS),
                     st.sampled_from(PL), st.sampled_from(PL), st.sampled_from(PL))


def _pat():
    w = st.sampled_from(["*", "*", 0, 1, 2])
    return st.tuples(w, w, w, st.one_of(st.just("*"), st.just("*"), st.integers(1, 12)))


def _op():
    ref = st.integers(0, 40)
    return st.one_of(
        _enq(), _enq(), _enq(),
        st.just(("deq",)), st.just(("deq",)),
        st.tuples(st.just("rem"), ref),
        st.tuples(st.just("rem"), ref),
        st.tuples(st.just("reprio"), ref, st.sampled_from(DS), st.sampled_from(IS)),
        st.tuples(st.just("reprio"), ref, st.sampled_from(DS), st.sampled_from(IS)),
        st.builds(lambda k, p: (k,) + p, st.sampled_from(["pfind", "pcount", "pcancel"]), _pat()),
        st.tuples(st.just("burst"), st.sampled_from([2, 3, 5, 7, 9, 17, 33, 65]),
                  st.lists(_enq(), min_size=1, max_size=4)),
        st.just(("query", 0)),
        st.sampled_from([("clear",), ("reset",), ("deq",), ("deq",), ("deq",), ("deq",)]),
    )


def strategy(tier):
    kind = st.one_of(st.builds(lambda e: ("default", e), st.integers(1, 6)),
                     st.just(("guard", 3)), st.just(("holders", 3)), st.just(("pq", 3)))
    return st.tuples(kind, st.lists(_op(), min_size=1, max_size=60))


def _opline(o):
    k = o[0]
    if k == "enq":
        return "enq %s %s %s %d %d %d" % (o[1], fhex(o[2]), o[3], o[4], o[5], o[6])
    if k in ("rem", "query"):
        return "%s @%d" % (k, o[1])
    if k == "reprio":
        return "reprio @%d %s %s" % (o[1], fhex(o[2]), o[3])
    if k in ("pfind", "pcount", "pcancel"):
        return "%s %s %s %s %s" % (k, o[1], o[2], o[3], o[4])
    return k


def serialize(case):
    (kind, exp), ops = case
    lines = ["mode hashheap", "kind %s %d" % (kind, exp)]
    for o in ops:
        if o[0] == "burst":
            n, templ = o[1], o[2]
            for j in range(n):
                lines.append(_opline(templ[j % len(templ)]))
        else:
            lines.append(_opline(o))
    return "\n".join(lines) + "\n"


def _category(msg):
    m = msg.split(": ", 1)[1] if ": " in msg else msg
    if "precedes it" in m:
        return "order"
    return squash(m, 40)


def evaluate(text, ctx):
    res = ctx.run(text, "asan")
    kind = "?"
    for ln in text.split("\n")[:3]:
        if ln.startswith("kind "):
            kind = ln.split()[1]
    if res.parse_error:
        raise RuntimeError("generator produced an unparsable case:\n" + text)
    if res.timed_out:
        return Outcome(ok=True, inconclusive=True)
    if res.oracle_failed:
        f = res.fail_lines()
        msg = f[0] if f else "oracle failed without message"
        return Outcome(ok=False, sig="hashheap/%s/%s" % (kind, _category(msg)), msg=msg,
                       detail="\n".join(res.lines[-5:]))
    if res.crashed:
        return crash_outcome(res, "hashheap-crash/" + kind)
    n = {}
    for ln in res.lines:
        if ln.startswith("N "):
            n = parse_kv(ln)
    classes = ["kind=" + kind]
    nt = False
    if n.get("growth", 0) > 0:
        classes.append("growth"); nt = True
    if n.get("growth", 0) > 1:
        classes.append("growth>=2")
    if n.get("reinsert", 0) > 0:
        classes.append("reinsert"); nt = True
    if n.get("collide", 0) > 0:
        classes.append("collide"); nt = True
    if n.get("up", 0) > 0 and n.get("down", 0) > 0:
        classes.append("reprio-both-ways"); nt = True
    if n.get("multipat", 0) > 0:
        classes.append("pattern-multi")
    if n.get("ops", 0) and n.get("skipped", 0) * 5 > n.get("ops", 1):
        classes.append("skipped>20%")
    return Outcome(ok=True, nontrivial=nt, classes=classes)


def extra(tier, ctx, seed, deadline):
    """Thorough tier: structure-aware libFuzzer campaign on the same reference model."""
    if tier != "thorough" or "fuzz" not in ctx.build_dirs:
        return {}
    from .. import fuzz
    execs, failures, cov, raw = fuzz.campaign(ctx.build_dirs["fuzz"], "fuzz_hashheap", seed, seconds=240, jobs=8,
                                              seed_inputs=[bytes([1, 2, 0, 17, 33, 5, 0, 0, 8, 3, 10, 1, 9]),
                                                           bytes([0, 0] + [0, 40, 7] * 20 + [5] * 10)])
    out = {"evaluations": execs, "coverage": cov, "failures": [(t, "libfuzzer", "oracle failed under libFuzzer") for t in failures]}
    if raw:
        cov["raw_crash_artifacts"] = raw
    return out
