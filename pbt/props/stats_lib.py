"""Shared machinery of the C17 / C18 checks (executor mode "stats").

A case is a small program (see harness/m_stats.c for the command set).  This
module
  * builds the case text from a command list (`Prog`),
  * parses the executor's trace (`parse_trace`),
  * re-interprets the same program on a reference model that keeps the exact
    contents of every summary / dataset / time series (`Judge`), and
  * judges every answer of the library against exact rational arithmetic
    (Python integers / `fractions.Fraction`) with the tolerances stated below.

TOLERANCES (eps = 2^-52, n = number of samples in the summary, all "exact"
quantities are computed in rational arithmetic and rounded once):
  mean      |m - mu|   <= K n eps max|x|                      (running-mean update)
  variance  |v - s2|   <= K n eps kappa s2 + K n eps^2 sum(x^2)/(n-1),
            kappa = sqrt(sum x^2 / M2)  (Chan/Golub/LeVeque bound n kappa eps for
            the updating algorithm; second-order term for exactly constant data)
  stddev    half the relative variance tolerance
  skewness  |g - G|    <= K n eps kappa (1 + A3) c3,  A3 = sqrt(n) sum|d|^3 / M2^1.5
  kurtosis  |k - K2|   <= K n eps kappa (1 + A4) c4,  A4 = n M4 / M2^2
            (c3, c4 = the finite-sample multipliers of the documented estimators)
with K = 64 (calibrated: the largest error seen on the unmodified library is
< 1.5 units with K = 1, see NOTES.md).  A statistic whose tolerance exceeds
LOOSE (1e-3, relative for mean/variance, absolute-per-(1+A) for skew/kurt) or
whose inputs leave the range where d^4 is representable is NOT judged (class
"...-illcond" / "...-range"), it never counts as a pass to brag about.
"""
import math
import re
from collections import Counter
from fractions import Fraction

from ..common import crash_outcome, fhex

EPS = 2.0 ** -52
K = 64.0
LOOSE = 1e-3
NSUM, NWS, NDS, NTS = 16, 16, 6, 6


# --------------------------------------------------------------------------
# case text
# --------------------------------------------------------------------------
class Prog(object):
    """Pool of doubles + command list -> case text."""

    def __init__(self):
        self.pool = []          # python floats, exactly what the executor will hold
        self.pool_lines = []
        self.cmds = []          # token tuples

    def lit(self, values):
        """append literal doubles; returns start index"""
        i0 = len(self.pool)
        vals = [float(v) for v in values]
        self.pool.extend(vals)
        for k in range(0, len(vals), 128):
            self.pool_lines.append("p " + " ".join(fhex(v) for v in vals[k:k + 128]))
        return i0

    def pat(self, n, a, b, c, m, off, sc):
        i0 = len(self.pool)
        self.pool.extend(pat_values(n, a, b, c, m, off, sc))
        self.pool_lines.append("ppat %d %d %d %d %d %d %d" % (n, a, b, c, m, off, sc))
        return i0

    def cmd(self, *toks):
        self.cmds.append(tuple(toks))
        return len(self.cmds) - 1

    def text(self):
        out = ["mode stats"] + self.pool_lines
        for t in self.cmds:
            out.append(" ".join(fhex(x) if isinstance(x, float) else str(x) for x in t))
        return "\n".join(out) + "\n"


def pat_values(n, a, b, c, m, off, sc):
    return [math.ldexp(float(((a * i * i + b * i + c) % m) + off), sc) for i in range(n)]


def parse_case(text):
    """case text -> (pool, cmds) ; cmds are token lists (strings)"""
    pool, cmds = [], []
    for ln in text.split("\n"):
        s = ln.strip()
        if not s or s.startswith("#") or s.startswith("mode "):
            continue
        tok = s.split()
        if tok[0] == "p":
            pool.extend(pfloat(t) for t in tok[1:])
        elif tok[0] == "ppat":
            pool.extend(pat_values(*[int(t) for t in tok[1:8]]))
        else:
            cmds.append(tok)
    return pool, cmds


def pfloat(s):
    t = s.lower()
    if "nan" in t:
        return float("nan")
    if "inf" in t:
        return float("-inf") if t.startswith("-") else float("inf")
    if "x" in t:
        return float.fromhex(s)
    return float(s)


# --------------------------------------------------------------------------
# trace
# --------------------------------------------------------------------------
class Ans(object):
    __slots__ = ("name", "f", "v", "text", "skip")

    def __init__(self):
        self.name, self.f, self.v, self.text, self.skip = None, [], {}, [], None


def answers(res):
    """Answers usable for judging. If the child died (sanitizer report, abort) the
    block-buffered trace may end in the middle of the last answer: drop that one."""
    ans = parse_trace(res.lines)
    if res.crashed and ans:
        del ans[max(ans)]
    return ans


_UBVAL = re.compile(r"ubsan:\S+ is outside the range of representable values[^/]*")


def crash(res, prefix):
    """crash Outcome whose signature does not contain the offending VALUE"""
    out = crash_outcome(res, prefix)
    out.sig = _UBVAL.sub("ubsan:float-cast-overflow", out.sig)
    return out


def parse_trace(lines):
    ans = {}
    for ln in lines:
        try:
            _parse_line(ans, ln)
        except (ValueError, IndexError):
            pass                       # truncated last line of a crashed child
    return ans


def _parse_line(ans, ln):
    if len(ln) < 3 or ln[1] != " " or ln[0] not in "RVTS":
        return
    c = ln[0]
    if c == "T":
        head, _, body = ln.partition("|")
        ans.setdefault(int(head.split()[1]), Ans()).text.append(body)
        return
    tok = ln.split()
    a = ans.setdefault(int(tok[1]), Ans())
    if c == "R":
        a.name, a.f = tok[2], tok[3:]
    elif c == "S":
        a.skip = " ".join(tok[2:])
    else:
        a.v.setdefault(tok[2], []).extend([pfloat(t) for t in tok[3:]])


# --------------------------------------------------------------------------
# exact statistics
# --------------------------------------------------------------------------
def _f(fr):
    """Fraction -> nearest double, +-inf on overflow"""
    try:
        return float(fr)
    except OverflowError:
        return math.inf if fr > 0 else -math.inf


class Exact(object):
    """Exact (weighted) moments of finite doubles. w=None means unit weights."""

    def __init__(self, xs, ws=None):
        n = len(xs)
        self.n = n
        self.xs = xs
        if n == 0:
            return
        self.min, self.max = min(xs), max(xs)
        self.absmax = max(abs(self.min), abs(self.max))
        self.range = self.max - self.min if math.isfinite(self.max - self.min) else math.inf
        rx = [x.as_integer_ratio() for x in xs]
        dx = max(r[1] for r in rx)
        X = [r[0] * (dx // r[1]) for r in rx]             # x_i = X_i / dx
        if ws is None:
            Wn = [1] * n
            dw = 1
        else:
            rw = [w.as_integer_ratio() for w in ws]
            dw = max(r[1] for r in rw)
            Wn = [r[0] * (dw // r[1]) for r in rw]        # w_i = Wn_i / dw
        W = sum(Wn)
        self.W = Fraction(W, dw)
        if W == 0:
            self.mean = None
            return
        S = sum(w * x for w, x in zip(Wn, X))
        self.mean = Fraction(S, W * dx)
        D = [W * x - S for x in X]                        # x_i - mu = D_i / (W dx)
        q = W * dx
        self.M2 = Fraction(sum(w * d * d for w, d in zip(Wn, D)), dw * q * q)
        self.M3 = Fraction(sum(w * d * d * d for w, d in zip(Wn, D)), dw * q ** 3)
        self.M4 = Fraction(sum(w * d ** 4 for w, d in zip(Wn, D)), dw * q ** 4)
        self.A3s = Fraction(sum(w * abs(d) ** 3 for w, d in zip(Wn, D)), dw * q ** 3)
        self.SX2 = Fraction(sum(w * x * x for w, x in zip(Wn, X)), dw * dx * dx)

    # -- derived, all as floats rounded once from exact rationals ------------
    def kappa(self):
        if self.M2 == 0:
            return math.inf
        return math.sqrt(_f(self.SX2 / self.M2))

    def g1(self):
        """population skewness sqrt(W) M3 / M2^1.5"""
        v = _f(self.W * self.M3 * self.M3 / self.M2 ** 3)
        return math.sqrt(v) if self.M3 >= 0 else -math.sqrt(v)

    def a3(self):
        return math.sqrt(_f(self.W * self.A3s * self.A3s / self.M2 ** 3))

    def a4(self):
        return _f(self.W * self.M4 / (self.M2 * self.M2))


def unweighted_refs(ex):
    """Acceptable reference values per statistic for an unweighted sample
    (documented: 'sample variance' = M2/(n-1); 'sample skewness' / 'sample excess
    kurtosis' are not defined more precisely in the header, so every standard
    estimator is accepted: g1, G1, b1 and g2, G2, b2)."""
    n = ex.n
    out = {}
    if n >= 2:
        out["var"] = [_f(ex.M2 / (n - 1))]
        out["sd"] = [math.sqrt(out["var"][0])]
    if n >= 3 and ex.M2 != 0:
        g1 = ex.g1()
        out["skew"] = [g1 * math.sqrt(n * (n - 1.0)) / (n - 2.0), g1,
                       g1 * ((n - 1.0) / n) ** 1.5]
    if n >= 4 and ex.M2 != 0:
        g2 = ex.M4 * n / (ex.M2 * ex.M2) - 3
        G2 = Fraction(n - 1, (n - 2) * (n - 3)) * ((n + 1) * g2 + 6)
        b2 = (g2 + 3) * Fraction((n - 1) * (n - 1), n * n) - 3
        out["kurt"] = [_f(G2), _f(g2), _f(b2)]
    return out


def units(ex, nops):
    """One tolerance unit (K = 1) per statistic, see module docstring.
    Returns dict stat -> unit or None if the statistic is not judged, plus the
    reason class."""
    n = max(ex.n, nops, 1)
    u, why = {}, {}
    u["mean"] = n * EPS * ex.absmax + 1e-300
    if ex.n < 2:
        return u, why
    kap = ex.kappa()
    var = _f(ex.M2 / (ex.n - 1))
    # range where squares / fourth powers of deviations are representable
    ok2 = ex.absmax <= 1e140 and (ex.range == 0 or ex.range >= 1e-140)
    ok4 = ex.absmax <= 1e70 and ex.range >= 1e-70
    if not ok2:
        why["var"] = "range"
    elif ex.M2 == 0:
        u["var"] = n * EPS * EPS * _f(ex.SX2) / (ex.n - 1) + 1e-300
        u["sd"] = math.sqrt(u["var"])
    elif K * n * EPS * kap > LOOSE:
        why["var"] = "illcond"
    else:
        u["var"] = n * EPS * kap * var + n * EPS * EPS * _f(ex.SX2) / (ex.n - 1) + 1e-300
        u["sd"] = 0.5 * u["var"] / math.sqrt(var) if var > 0 else None
        if u["sd"] is None:
            del u["sd"]
    if ex.M2 != 0:
        nn = float(ex.n)
        for name, amp, cfac, need in (
                ("skew", ex.a3, math.sqrt(nn * (nn - 1)) / max(nn - 2, 1), 3),
                ("kurt", ex.a4, (nn - 1) * (nn + 1) / max((nn - 2) * (nn - 3), 1), 4)):
            if ex.n < need:
                continue
            if not ok4:
                why[name] = "range"
            elif K * n * EPS * kap > LOOSE:
                why[name] = "illcond"
            else:
                u[name] = n * EPS * kap * (1.0 + amp()) * cfac
    return u, why


# --------------------------------------------------------------------------
# the judge: reference interpretation of the program + verdicts
# --------------------------------------------------------------------------
class Judge(object):
    def __init__(self, pool, cmds, ans):
        self.pool, self.cmds, self.ans = pool, cmds, ans
        self.sums = [dict(xs=[], nops=0, origin="adds") for _ in range(NSUM)]
        self.wss = [dict(xs=[], ws=[], nops=0, origin="adds") for _ in range(NWS)]
        self.dss = [dict(xs=[], exact=None) for _ in range(NDS)]
        self.tss = [dict(tr=[], order="t", exact=None, copied=False) for _ in range(NTS)]
        self.fails = []            # (sig, msg)
        self.classes = set()
        self.judged = Counter()    # statistic -> number of judged comparisons
        self.ratio = {}            # statistic -> worst error / unit (calibration)
        self.incomplete = False

    # -- helpers -----------------------------------------------------------
    def fail(self, sig, msg):
        self.fails.append((sig, msg))

    def note_ratio(self, stat, r):
        if r == r and r > self.ratio.get(stat, 0.0):
            self.ratio[stat] = r

    def run(self):
        for idx, tok in enumerate(self.cmds):
            a = self.ans.get(idx)
            if a is None:
                self.incomplete = True
                break
            h = getattr(self, "op_" + tok[0].replace(".", "_"))
            h(idx, tok, a)
        return self

    # -- unweighted summaries ------------------------------------------------
    def op_sum_add(self, idx, tok, a):
        s, i0, n = int(tok[1]), int(tok[2]), int(tok[3])
        d = self.sums[s]
        d["xs"] = d["xs"] + self.pool[i0:i0 + n]
        d["nops"] += n
        if int(a.f[0]) != len(d["xs"]):
            self.fail("sum/add-return-count", "cmd %d: cmb_datasummary_add returned %s, %d samples added"
                      % (idx, a.f[0], len(d["xs"])))

    def _merge(self, slots, idx, tok, a, kind):
        t, x, y = int(tok[1]), int(tok[2]), int(tok[3])
        A, B = slots[x], slots[y]
        na, nb = len(A["xs"]), len(B["xs"])
        new = dict(xs=A["xs"] + B["xs"], nops=A["nops"] + B["nops"] + 1)
        if kind == "ws":
            new["ws"] = A["ws"] + B["ws"]
        tags = {A["origin"], B["origin"]}
        if na == 0 and nb == 0:
            new["origin"] = "merge-both-empty"
            self.classes.add(kind + ":merge-both-empty")
        elif "merge-both-empty" in tags:
            new["origin"] = "merge-both-empty"
        else:
            new["origin"] = "merge"
            if na == 0 or nb == 0:
                self.classes.add(kind + ":merge-one-empty")
            else:
                self.classes.add(kind + ":merge-both-nonempty")
        if (na == 0 and A.get("was_reset")) or (nb == 0 and B.get("was_reset")):
            self.classes.add(kind + ":merge-with-emptied-by-reset" + ("" if na or nb else "-both-empty"))
        if x == y:
            self.classes.add(kind + ":merge-self")
        self.classes.add(kind + ":merge-into-" + ("first" if t == x else "second" if t == y else "third"))
        slots[t] = new
        if int(a.f[0]) != len(new["xs"]):
            self.fail(kind + "/merge-return-count", "cmd %d: merge returned %s, expected %d"
                      % (idx, a.f[0], len(new["xs"])))

    def op_sum_merge(self, idx, tok, a):
        self._merge(self.sums, idx, tok, a, "sum")

    def op_sum_reset(self, idx, tok, a):
        self.classes.add("sum:reset" + ("-after-data" if self.sums[int(tok[1])]["xs"] else "-of-empty"))
        self.sums[int(tok[1])] = dict(xs=[], nops=0, origin="adds", was_reset=bool(self.sums[int(tok[1])]["xs"]))

    def op_sum_print(self, idx, tok, a):
        pass

    op_ws_print = op_sum_print

    def op_sum_get(self, idx, tok, a):
        d = self.sums[int(tok[1])]
        self._judge_summary(idx, "sum", a, d["xs"], None, d["nops"], d["origin"])

    def _judge_summary(self, idx, kind, a, xs, ws, nops, origin):
        cnt = int(a.f[0])
        vals = dict(zip(("min", "max", "mean", "var", "sd", "skew", "kurt"), (pfloat(t) for t in a.f[1:8])))
        n = len(xs)
        where = "%s/%s" % (kind, origin)
        if cnt != n:
            self.fail(where + "/count", "cmd %d: count %d, expected %d" % (idx, cnt, n))
            return
        if n == 0:
            self.classes.add(kind + ":get-empty")
            return
        ex = Exact(xs, ws)
        for k, ref in (("min", ex.min), ("max", ex.max)):
            if vals[k] != ref:
                self.fail(where + "/" + k, "cmd %d: %s %r, exact %r" % (idx, k, vals[k], ref))
                return
        self.judged["minmax"] += 1
        u, why = units(ex, nops)
        for k, r in why.items():
            self.classes.add("%s:%s-%s" % (kind, k, r))
        mu = _f(ex.mean)
        err = abs(vals["mean"] - mu)
        self.note_ratio("mean", err / u["mean"])
        self.judged["mean"] += 1
        if not err <= K * u["mean"]:
            self.fail(where + "/mean", "cmd %d: mean %r, exact %r (n=%d, tolerance %.3g)"
                      % (idx, vals["mean"], mu, n, K * u["mean"]))
            return
        unit_weights = ws is None or all(w == 1.0 for w in ws)
        if not unit_weights:
            return
        refs = unweighted_refs(ex)
        for st in ("var", "sd", "skew", "kurt"):
            if st not in u or st not in refs:
                continue
            e = min(abs(vals[st] - r) for r in refs[st]) if vals[st] == vals[st] else math.inf
            self.note_ratio(st, e / u[st])
            self.judged[st] += 1
            if not e <= K * u[st]:
                self.fail(where + "/" + st, "cmd %d: %s %r, exact %r (n=%d, kappa=%.3g, tolerance %.3g)"
                          % (idx, st, vals[st], refs[st][0], n, ex.kappa(), K * u[st]))
                return

    # -- weighted summaries --------------------------------------------------
    def op_ws_add(self, idx, tok, a):
        s, xi, wi, n, e = (int(t) for t in tok[1:6])
        d = self.wss[s]
        xs, ws = list(d["xs"]), list(d["ws"])
        for j in range(n):
            w = math.ldexp(self.pool[wi + j], e)
            if w == 0.0:
                self.classes.add("ws:zero-weight")
                continue           # documented: ignored, not even counted
            xs.append(self.pool[xi + j])
            ws.append(w)
        d["xs"], d["ws"] = xs, ws
        d["nops"] += n
        if int(a.f[0]) != len(xs):
            self.fail("ws/add-return-count", "cmd %d: cmb_wtdsummary_add returned %s, %d non-zero-weight samples"
                      % (idx, a.f[0], len(xs)))

    def op_ws_merge(self, idx, tok, a):
        self._merge(self.wss, idx, tok, a, "ws")

    def op_ws_reset(self, idx, tok, a):
        self.classes.add("ws:reset" + ("-after-data" if self.wss[int(tok[1])]["xs"] else "-of-empty"))
        self.wss[int(tok[1])] = dict(xs=[], ws=[], nops=0, origin="adds", was_reset=bool(self.wss[int(tok[1])]["xs"]))

    def op_ws_get(self, idx, tok, a):
        d = self.wss[int(tok[1])]
        if d["ws"] and all(w == 1.0 for w in d["ws"]):
            self.classes.add("ws:all-ones")
        self._judge_summary(idx, "ws", a, d["xs"], d["ws"], d["nops"], d["origin"])

    def compare_pair(self, ia, ib, rel, judge_higher=True, judge_var=True):
        """Two ws.get answers that the property says must agree (weights scaled by
        2^k / zero-weight samples left out). An implementation for which the
        relation holds mathematically gives bit-identical or last-digit-different
        results because scaling by a power of two is exact; tolerance 1e-9 relative
        + 1e-290 (1e-145 for the
        standard deviation): subnormal intermediates do not scale exactly.
        Two NaNs (0/0 statistics of constant data) are not judged."""
        A, B = self.ans.get(ia), self.ans.get(ib)
        if A is None or B is None or A.skip or B.skip:
            return
        if A.f[0] != B.f[0]:
            self.fail("ws/%s/count" % rel, "cmds %d,%d: counts %s vs %s" % (ia, ib, A.f[0], B.f[0]))
            return
        names = ("min", "max", "mean", "var", "sd", "skew", "kurt")
        for k, sa, sb in zip(names, A.f[1:8], B.f[1:8]):
            if k in ("skew", "kurt") and not judge_higher:
                continue
            if k in ("var", "sd") and not judge_var:
                continue
            x, y = pfloat(sa), pfloat(sb)
            if x != x and y != y:
                continue
            self.judged[rel] += 1
            if x == y or abs(x - y) <= 1e-9 * max(abs(x), abs(y)) + (1e-145 if k == "sd" else 1e-290):
                continue
            self.fail("ws/%s/%s" % (rel, k), "cmds %d,%d: %s %r vs %r" % (ia, ib, k, x, y))
            return

    # -- summaries taken from collected data ---------------------------------
    def op_ds_summ(self, idx, tok, a):
        d, s = int(tok[1]), int(tok[2])
        xs = list(self.dss[d]["xs"])
        self.sums[s] = dict(xs=xs, nops=len(xs), origin="dataset")
        if int(a.f[0]) != len(xs):
            self.fail("sum/dataset/return-count", "cmd %d: cmb_dataset_summarize returned %s, %d samples"
                      % (idx, a.f[0], len(xs)))

    def op_ts_summ(self, idx, tok, a):
        d, s = int(tok[1]), int(tok[2])
        if a.skip:
            return
        tr = self.tss[d]["tr"]
        # documented: the last sample has no duration and is not included
        xs = [x for (x, _t, w) in tr[:-1] if w != 0.0]
        ws = [w for (_x, _t, w) in tr[:-1] if w != 0.0]
        if len(xs) != len(tr) - 1:
            self.classes.add("ws:zero-weight")
        self.wss[s] = dict(xs=xs, ws=ws, nops=len(tr), origin="timeseries")

    # ======================================================================
    # C18: datasets and time series
    # ======================================================================
    def op_ds_add(self, idx, tok, a):
        d, i0, n, e = int(tok[1]), int(tok[2]), int(tok[3]), int(tok[4])
        b = pfloat(tok[5])
        D = self.dss[d]
        D["xs"] = D["xs"] + [math.ldexp(x, e) + b for x in self.pool[i0:i0 + n]]
        D["exact"] = None
        D["sorted"] = False
        if int(a.f[0]) != len(D["xs"]):
            self.fail("ds/add-return-count", "cmd %d: count %s, expected %d" % (idx, a.f[0], len(D["xs"])))

    def op_ds_reset(self, idx, tok, a):
        self.dss[int(tok[1])] = dict(xs=[], exact=None)

    def op_ts_reset(self, idx, tok, a):
        self.tss[int(tok[1])] = dict(tr=[], order="t", exact=None, copied=False)

    def op_ts_add(self, idx, tok, a):
        d, xi, ti, n = (int(t) for t in tok[1:5])
        T = self.tss[d]
        tr = list(T["tr"])
        for j in range(n):
            x, t = self.pool[xi + j], self.pool[ti + j]
            if tr:
                px, pt, _ = tr[-1]
                tr[-1] = (px, pt, t - pt)      # the duration as the library computes it
            tr.append((x, t, 0.0))
        T["tr"], T["exact"] = tr, None
        if T["copied"]:
            self.classes.add("ts:add-after-copy")
        if int(a.f[0]) != len(tr):
            self.fail("ts/add-return-count", "cmd %d: count %s, expected %d" % (idx, a.f[0], len(tr)))

    def op_ts_fin(self, idx, tok, a):
        if a.skip:
            return
        T = self.tss[int(tok[1])]
        t = pfloat(tok[2])
        tr = list(T["tr"])
        px, pt, _ = tr[-1]
        tr[-1] = (px, pt, t - pt)
        tr.append((px, t, 0.0))
        T["tr"], T["exact"] = tr, None
        self.classes.add("ts:finalized")

    def op_ds_sort(self, idx, tok, a):
        D = self.dss[int(tok[1])]
        D["xs"] = sorted(D["xs"])
        D["sorted"] = True
        D["exact"] = None

    def op_ts_sortx(self, idx, tok, a):
        T = self.tss[int(tok[1])]
        T["order"], T["exact"] = "x", None

    def op_ts_sortt(self, idx, tok, a):
        T = self.tss[int(tok[1])]
        T["order"], T["exact"] = "t-resorted", None

    def op_ds_copy(self, idx, tok, a):
        t, s = int(tok[1]), int(tok[2])
        S = self.dss[s]
        self.dss[t] = dict(xs=list(S["xs"]), exact=S["exact"], sorted=S.get("sorted", False))
        if int(a.f[0]) != len(S["xs"]):
            self.fail("ds/copy-return-count", "cmd %d: %s vs %d" % (idx, a.f[0], len(S["xs"])))

    def op_ts_copy(self, idx, tok, a):
        t, s = int(tok[1]), int(tok[2])
        S = self.tss[s]
        self.tss[t] = dict(tr=list(S["tr"]), order=S["order"], exact=S["exact"], copied=True)
        if int(a.f[0]) != len(S["tr"]):
            self.fail("ts/copy-return-count", "cmd %d: %s vs %d" % (idx, a.f[0], len(S["tr"])))

    @staticmethod
    def _growth_class(n):
        return "n<=1024" if n <= 1024 else "n:1025-2048" if n <= 2048 else "n>2048"

    def op_ds_dump(self, idx, tok, a):
        D = self.dss[int(tok[1])]
        xs = D["xs"]
        got = a.v.get("x", [])
        n = len(xs)
        self.classes.add("ds:dump-" + self._growth_class(n))
        if int(a.f[0]) != n or len(got) != n:
            self.fail("ds/dump/count", "cmd %d: count %s (%d values), expected %d" % (idx, a.f[0], len(got), n))
            return
        if n and (pfloat(a.f[1]) != min(xs) or pfloat(a.f[2]) != max(xs)):
            self.fail("ds/dump/minmax", "cmd %d: min/max %s %s, exact %r %r" % (idx, a.f[1], a.f[2], min(xs), max(xs)))
            return
        hx = [v.hex() for v in got]
        if D["exact"] is not None:
            self.judged["copy-exact"] += 1
            if hx != D["exact"]:
                self.fail("ds/copy-not-exact", "cmd %d: copy differs from the source's contents" % idx)
                return
        if D.get("sorted"):
            self.judged["sort"] += 1
            bad = [i for i in range(n - 1) if not got[i] <= got[i + 1]]
            if bad:
                self.fail("ds/sort/not-ascending", "cmd %d: x[%d]=%r > x[%d]=%r after cmb_dataset_sort (n=%d)"
                          % (idx, bad[0], got[bad[0]], bad[0] + 1, got[bad[0] + 1], n))
                return
        if Counter(hx) != Counter(v.hex() for v in xs):
            self.fail("ds/%s/multiset" % ("sort" if D.get("sorted") else "contents"),
                      "cmd %d: the stored values are not the values added (n=%d)" % (idx, n))
            return
        if not D.get("sorted") and any(g != x for g, x in zip(got, xs)):
            self.fail("ds/contents/order", "cmd %d: unsorted dataset does not hold the values in insertion order" % idx)
            return
        D["exact"] = hx
        D["xs"] = list(got)            # keep +-0 placement as the library has it

    def op_ts_dump(self, idx, tok, a):
        T = self.tss[int(tok[1])]
        tr = T["tr"]
        n = len(tr)
        gx, gt, gw = a.v.get("x", []), a.v.get("t", []), a.v.get("w", [])
        self.classes.add("ts:dump-" + self._growth_class(n))
        if int(a.f[0]) != n or len(gx) != n or len(gt) != n or len(gw) != n:
            self.fail("ts/dump/count", "cmd %d: count %s, expected %d" % (idx, a.f[0], n))
            return
        got = list(zip(gx, gt, gw))
        hx = [(x.hex(), t.hex(), w.hex()) for x, t, w in got]
        if T["exact"] is not None:
            self.judged["copy-exact"] += 1
            if hx != T["exact"]:
                self.fail("ts/copy-not-exact", "cmd %d: copy differs from the source's contents" % idx)
                return
        if T["order"] == "x":
            key, what = gx, "sort_x"
        elif T["order"] == "t-resorted":
            key, what = gt, "sort_t"
        else:
            key, what = None, "contents"
        if key is not None:
            self.judged["sort"] += 1
            bad = [i for i in range(n - 1) if not key[i] <= key[i + 1]]
            if bad:
                self.fail("ts/%s/not-ascending" % what, "cmd %d: key[%d]=%r > key[%d]=%r (n=%d)"
                          % (idx, bad[0], key[bad[0]], bad[0] + 1, key[bad[0] + 1], n))
                return
        if Counter(hx) != Counter((x.hex(), t.hex(), w.hex()) for x, t, w in tr):
            self.fail("ts/%s/triples" % what, "cmd %d: the (x,t,w) triples are not the ones recorded (n=%d); "
                      "a sample lost its own time or weight" % (idx, n))
            return
        if key is None and got != tr and any(g != e for g, e in zip(got, tr)):
            self.fail("ts/contents/order", "cmd %d: time series not in recording order" % idx)
            return
        T["exact"] = hx
        T["tr"] = got

    # -- medians ---------------------------------------------------------------
    def _median_check(self, idx, where, m, xs, ws):
        """true (weighted) median: weight strictly below <= W/2 and strictly above <= W/2.
        Unit weights: exact integer comparison. Durations: exact rational sums, slack
        1e-9 W because the library may resolve a cumulative weight that equals W/2 up
        to rounding either way."""
        if m != m:
            self.fail(where + "/nan", "cmd %d: median is NaN" % idx)
            return
        if ws is None:
            n = len(xs)
            below = sum(1 for x in xs if x < m)
            above = sum(1 for x in xs if x > m)
            half, slack = Fraction(n, 2), 0
        else:
            W = sum((Fraction(w) for w in ws), Fraction(0))
            below = sum((Fraction(w) for x, w in zip(xs, ws) if x < m), Fraction(0))
            above = sum((Fraction(w) for x, w in zip(xs, ws) if x > m), Fraction(0))
            half, slack = W / 2, W * Fraction(1, 10 ** 9)
            if W == 0:
                self.classes.add("ts:median-zero-total-weight")
                return
            big = max(ws)
            if Fraction(big) > half:
                self.classes.add("ts:median-one-sample>50%")
        self.judged["median"] += 1
        if below > half + slack or above > half + slack:
            side = "below" if below > half + slack else "above"
            rng = "outside the data range" if (m < min(xs) or m > max(xs)) else "inside the data range"
            self.fail(where + "/not-a-median/" + ("outside-range" if "outside" in rng else side),
                      "cmd %d: median %r (%s): weight strictly below %.6g, strictly above %.6g, total %.6g"
                      % (idx, m, rng, float(below), float(above), float(half * 2)))

    def op_ds_median(self, idx, tok, a):
        if a.skip:
            return
        xs = self.dss[int(tok[1])]["xs"]
        self.classes.add("ds:median-" + ("odd" if len(xs) % 2 else "even"))
        self._median_check(idx, "ds/median", pfloat(a.f[0]), xs, None)

    def op_ts_dsmedian(self, idx, tok, a):
        if a.skip:
            return
        xs = [x for x, _t, _w in self.tss[int(tok[1])]["tr"]]
        self._median_check(idx, "ts/dsmedian", pfloat(a.f[0]), xs, None)

    def op_ts_median(self, idx, tok, a):
        if a.skip:
            return
        tr = self.tss[int(tok[1])]["tr"]
        self._median_check(idx, "ts/median", pfloat(a.f[0]), [x for x, _t, _w in tr], [w for _x, _t, w in tr])

    # -- five-number summaries ---------------------------------------------------
    def _fivenum(self, idx, where, a, lead, xs):
        """Text '%#8.4g' x5. Rounding to 4 significant digits is monotone, so the
        order min <= Q1 <= median <= Q3 <= max must hold for the printed numbers, and
        the printed min / max must be the rounded true extremes (data range)."""
        if a.skip:
            return
        line = a.text[0] if a.text else ""
        s = line
        for w in ("Min", "First", "Median", "Third", "Max"):
            s = s.replace(w, " ")
        try:
            v = [pfloat(t) for t in s.split()]
        except ValueError:
            v = []
        if len(v) != 5:
            self.fail(where + "/format", "cmd %d: cannot read five numbers from %r" % (idx, line))
            return
        self.judged["fivenum"] += 1
        self.classes.add("%s:n=%s" % (where.replace("/", ":"), len(xs) if len(xs) <= 3 else ">3"))
        tmin, tmax = pfloat("%#8.4g" % min(xs)), pfloat("%#8.4g" % max(xs))
        if any(x != x for x in v):
            self.fail(where + "/nan", "cmd %d: %r" % (idx, line))
        elif v[0] != tmin or v[4] != tmax:
            self.fail(where + "/extremes", "cmd %d: printed min/max %r %r, data range %r..%r"
                      % (idx, v[0], v[4], min(xs), max(xs)))
        elif not (v[0] <= v[1] <= v[2] <= v[3] <= v[4]):
            out = any(q < v[0] or q > v[4] for q in v[1:4])
            self.fail(where + ("/outside-range" if out else "/order"),
                      "cmd %d: five-number summary %r of %d samples in [%r, %r]"
                      % (idx, line.strip(), len(xs), min(xs), max(xs)))

    def op_ds_fivenum(self, idx, tok, a):
        self._fivenum(idx, "ds/fivenum", a, int(tok[2]), self.dss[int(tok[1])]["xs"])

    def op_ts_dsfivenum(self, idx, tok, a):
        self._fivenum(idx, "ts/dsfivenum", a, int(tok[2]), [x for x, _t, _w in self.tss[int(tok[1])]["tr"]])

    def op_ts_fivenum(self, idx, tok, a):
        tr = self.tss[int(tok[1])]["tr"]
        if tr and not any(w != 0.0 for _x, _t, w in tr):
            self.classes.add("ts:fivenum-zero-total-weight")
            self._fivenum(idx, "ts/fivenum-zero-total-weight", a, int(tok[2]), [x for x, _t, _w in tr])
            return
        self._fivenum(idx, "ts/fivenum", a, int(tok[2]), [x for x, _t, _w in tr])

    # -- histograms ------------------------------------------------------------
    @staticmethod
    def _ref_bins(xs, ws, nb, lo, hi):
        """Reference binning: bin 0 = (-inf, lo), bins 1..nb = [lo + (i-1) h, lo + i h),
        bin nb+1 = [hi, inf) as the printed labels say. Returns (sure, maybe): exact
        weight per bin of samples whose bin is unambiguous, and the weight that may
        fall into a bin because the sample sits within 1e-9 (relative) of a bin edge,
        where the library's floating-point quotient may legitimately round either way."""
        flo, fhi = Fraction(lo), Fraction(hi)
        h = (fhi - flo) / nb
        sure = [Fraction(0)] * (nb + 2)
        maybe = [Fraction(0)] * (nb + 2)
        for i, x in enumerate(xs):
            w = Fraction(1) if ws is None else Fraction(ws[i])
            if w == 0:
                continue
            if x < lo:
                sure[0] += w
            elif x > hi:
                sure[nb + 1] += w
            elif h == 0:
                maybe[1] += w          # zero-width range: any inner bin is fine, see caller
            else:
                q = (Fraction(x) - flo) / h
                k = int(q)             # floor, q >= 0
                r = round(q)
                if abs(q - r) <= Fraction(1, 10 ** 9) * max(1, r):
                    for kk in {max(r - 1, 0), min(r, nb)}:
                        maybe[1 + kk] += w
                else:
                    sure[1 + k] += w
        return sure, maybe

    @staticmethod
    def _bars(text):
        """histogram text -> list of (#full, tail symbol) per bin line, or None"""
        rows = []
        for ln in text:
            if ln.startswith("(") or ln.startswith("["):
                pos = ln.find(")   |")
                if pos < 0:
                    return None
                bar = ln[pos + 5:]
                rows.append((bar.count("#"), bar.replace("#", "")))
        return rows

    def _hist_text(self, idx, where, a, xs, ws, nb_req, lo, hi):
        """Every sample / all of its weight is accounted for once: the printed bars
        (50 characters for the fullest bin) must be proportional to the reference bin
        contents within one character, for the bin count the library chose."""
        if a.skip:
            return
        if lo == hi:
            lo, hi = min(xs), max(xs)      # documented auto-scaling
            self.classes.add(where.split("/")[0] + ":hist-autoscale")
        rows = self._bars(a.text)
        if not rows or len(rows) < 3 or any(r[1].strip("=-") for r in rows):
            self.fail(where + "/format", "cmd %d: cannot read histogram text (%d lines)" % (idx, len(a.text)))
            return
        nb = len(rows) - 2
        if nb != nb_req:
            self.classes.add(where.split("/")[0] + ":hist-bins-reduced")
        if any(x < lo for x in xs):
            self.classes.add(where.split("/")[0] + ":hist-underflow")
        if any(x > hi for x in xs):
            self.classes.add(where.split("/")[0] + ":hist-overflow")
        sure, maybe = self._ref_bins(xs, ws, nb, lo, hi)
        if ws is not None and sum((Fraction(w) for w in ws), Fraction(0)) == 0:
            self.classes.add("ts:hist-zero-total-weight")
            return
        full = [r[0] for r in rows]
        self.judged["hist-text"] += 1
        if hi == lo:
            # all in-range samples have the same value: one inner/upper bin holds them all
            self.classes.add(where.split("/")[0] + ":hist-zero-width")
            if not 49 <= max(full) <= 50:
                self.fail(where + "/bars/scale", "cmd %d: fullest bar has %d characters, not 50 (+-1)" % (idx, max(full)))
            return
        if any(m != 0 for m in maybe):
            self.classes.add(where.split("/")[0] + ":hist-edge-ambiguous")
            lo_c = sure
            hi_c = [s + m for s, m in zip(sure, maybe)]
        else:
            lo_c = hi_c = sure
        cmax_lo, cmax_hi = max(lo_c), max(hi_c)
        if cmax_lo == 0:
            return
        for i in range(nb + 2):
            e_lo = float(50 * lo_c[i] / cmax_hi)
            e_hi = float(50 * hi_c[i] / cmax_lo)
            if not (e_lo - 1.000001 <= full[i] <= e_hi + 1.000001):
                kind = "underflow-bin" if i == 0 else "overflow-bin" if i == nb + 1 else "inner-bin"
                self.fail(where + "/bars/" + kind,
                          "cmd %d: bin %d of %d shows %d full characters, reference content %.6g of max %.6g "
                          "=> %.2f characters (n=%d, range [%r,%r])"
                          % (idx, i, nb, full[i], float(lo_c[i]), float(cmax_lo), e_lo, len(xs), lo, hi))
                return
        if not 49 <= max(full) <= 50:
            self.fail(where + "/bars/scale", "cmd %d: fullest bar has %d characters, not 50 (+-1)" % (idx, max(full)))

    def op_ds_hist(self, idx, tok, a):
        xs = self.dss[int(tok[1])]["xs"]
        self._hist_text(idx, "ds/hist", a, xs, None, int(tok[2]), pfloat(tok[3]), pfloat(tok[4]))

    def op_ts_dshist(self, idx, tok, a):
        xs = [x for x, _t, _w in self.tss[int(tok[1])]["tr"]]
        self._hist_text(idx, "ts/dshist", a, xs, None, int(tok[2]), pfloat(tok[3]), pfloat(tok[4]))

    def op_ts_hist(self, idx, tok, a):
        T = self.tss[int(tok[1])]
        if a.skip or T["order"] != "t":
            return
        tr = T["tr"]
        if len(tr) < 2:
            return                      # library prints "Not enough data", nothing to account for
        self._hist_text(idx, "ts/hist", a, [x for x, _t, _w in tr], [w for _x, _t, w in tr],
                        int(tok[2]), pfloat(tok[3]), pfloat(tok[4]))

    def op_ds_hfill(self, idx, tok, a):
        """bin contents straight from cmi_dataset_histogram_fill: sum == n exactly and
        every bin equals the reference binning (edge samples may go either way)."""
        if a.skip:
            return
        xs = self.dss[int(tok[1])]["xs"]
        nb, lo, hi = int(tok[2]), pfloat(tok[3]), pfloat(tok[4])
        h = a.v.get("h", [])
        if len(h) != nb + 2:
            self.fail("ds/hfill/bins", "cmd %d: %d bins, expected %d" % (idx, len(h), nb + 2))
            return
        self.judged["hist-bins"] += 1
        if sum(Fraction(v) for v in h if v == v) != len(xs) or any(v != v for v in h):
            self.fail("ds/hfill/total", "cmd %d: bins sum to %r, %d samples" % (idx, sum(h), len(xs)))
            return
        sure, maybe = self._ref_bins(xs, None, nb, lo, hi)
        for i in range(nb + 2):
            if not (sure[i] <= h[i] <= sure[i] + maybe[i]):
                kind = "underflow-bin" if i == 0 else "overflow-bin" if i == nb + 1 else "inner-bin"
                self.fail("ds/hfill/" + kind, "cmd %d: bin %d of %d holds %r, reference %s (+%s on an edge)"
                          % (idx, i, nb, h[i], sure[i], maybe[i]))
                return
        rows = self._bars(a.text)
        if rows and len(rows) == nb + 2:
            hm = max(h)
            for i in range(nb + 2):
                if abs(rows[i][0] - 50.0 * h[i] / hm) > 1.000001:
                    self.fail("ds/hfill/bars", "cmd %d: bin %d holds %r of max %r but shows %d characters"
                              % (idx, i, h[i], hm, rows[i][0]))
                    return

    # -- correlograms ----------------------------------------------------------
    ACF_GUARD = 1e-9     # src/cmb_dataset.c: "nearly constant" guard, ACFs rounded to zero

    def _series(self, tok):
        if tok[0].startswith("ts."):
            return [x for x, _t, _w in self.tss[int(tok[1])]["tr"]]
        return self.dss[int(tok[1])]["xs"]

    def op_ds_acf(self, idx, tok, a):
        if a.skip:
            return
        acf = a.v.get("a", [])
        self.judged["acf-lag0"] += 1
        if not acf or acf[0] != 1.0:
            self.fail("acf/lag0", "cmd %d: ACF[0] = %r" % (idx, acf[:1]))

    op_ts_acf = op_ds_acf

    def op_ds_pacf(self, idx, tok, a):
        if a.skip:
            return
        acf, pacf = a.v.get("a", []), a.v.get("p", [])
        self.judged["acf-lag0"] += 1
        if not acf or acf[0] != 1.0:
            self.fail("acf/lag0", "cmd %d: ACF[0] = %r" % (idx, acf[:1]))
        elif not pacf or pacf[0] != 1.0:
            self.fail("pacf/lag0", "cmd %d: PACF[0] = %r" % (idx, pacf[:1]))
        elif int(tok[3]) == 0:
            self.classes.add("pacf:acf-computed-inside")

    op_ts_pacf = op_ds_pacf

    @staticmethod
    def _durbin_levinson(acf):
        n = len(acf) - 1
        pacf = [1.0] + [0.0] * n
        if n < 1:
            return pacf
        phi_prev = [0.0] * (n + 1)
        pacf[1] = acf[1]
        phi_prev[1] = acf[1]
        for k in range(2, n + 1):
            num = sum(phi_prev[j] * acf[k - j] for j in range(1, k))
            den = sum(phi_prev[j] * acf[j] for j in range(1, k))
            if 1.0 - den == 0.0:
                pacf[k:] = [math.nan] * (n + 1 - k)
                break
            pk = (acf[k] - num) / (1.0 - den)
            pacf[k] = pk
            phi = list(phi_prev)
            for j in range(1, k):
                phi[j] = phi_prev[j] - pk * phi_prev[k - j]
            phi[k] = pk
            phi_prev = phi
        return pacf

    def _acf_units(self, ys, nlag):
        """tolerance unit per lag for an ACF computed in doubles from ys:
        n eps kappa' (1 + A_k), kappa' = max|y| / sd, A_k = mean|d_i d_(i+k)| / var.
        None if the variance is inside (10x margin) the library's nearly-constant guard."""
        n = len(ys)
        ex = Exact(ys)
        var = _f(ex.M2 / (n - 1))
        if not var >= 10 * self.ACF_GUARD or not math.isfinite(var):
            return None
        mu = _f(ex.mean)
        d = [abs(y - mu) + EPS * ex.absmax for y in ys]
        kap = ex.absmax / math.sqrt(var) + 1.0
        out = [0.0]
        for k in range(1, nlag + 1):
            ak = sum(d[i] * d[i + k] for i in range(n - k)) / (n - k) / var
            out.append(n * EPS * kap * (1.0 + ak))
        return out

    def compare_acf(self, ia, ib, rel):
        """ACF / PACF of a data set and of the same data shifted and/or scaled by 2^k
        must agree. ACF tolerance 16 units (see _acf_units) + 1e-12; lags whose tolerance
        exceeds 1e-4 are not judged. PACF: the Durbin-Levinson recursion amplifies the
        last-digit differences of the two ACF vectors; the amplification is measured by
        running the recursion in Python on both ACF vectors, tolerance
        1e-9 + 1e4 * max_j<=k |difference of the two reference PACFs|, not judged above 1e-3."""
        A, B = self.ans.get(ia), self.ans.get(ib)
        if A is None or B is None or A.skip or B.skip:
            return
        ya, yb = self._series(self.cmds[ia]), self._series(self.cmds[ib])
        aa, ab = A.v.get("a", []), B.v.get("a", [])
        nlag = min(len(aa), len(ab)) - 1
        ua, ub = self._acf_units(ya, nlag), self._acf_units(yb, nlag)
        if ua is None or ub is None:
            self.classes.add("acf:nearly-constant-guard")
            return
        self.classes.add("acf:" + rel)
        # An autocorrelation coefficient has the sign of the lag-k sum of cross products around the mean,
        # whatever normalisation (n or n-k) the estimator uses. Judged only where that is unambiguous:
        # n >= 10, k <= n/4, |r_k| >= 0.3 under the standard definition.
        n = len(ya)
        if n >= 10:
            mu = sum(ya) / n
            den = sum((y - mu) ** 2 for y in ya)
            for k in range(1, min(nlag, n // 4) + 1):
                rk = sum((ya[i] - mu) * (ya[i + k] - mu) for i in range(n - k)) / den if den > 0 else 0.0
                if abs(rk) >= 0.3 and ua[k] <= 1e-6:
                    self.judged["acf-sign"] += 1
                    if not (aa[k] * rk > 0.0):
                        self.fail("acf/sign", "cmd %d: ACF[%d] = %r but the lag-%d cross products around the mean give "
                                  "%.3f (n=%d)" % (ia, k, aa[k], k, rk, n))
                        return
        ok_all = True
        for k in range(1, nlag + 1):
            tol = 16.0 * (ua[k] + ub[k]) + 1e-12
            if tol > 1e-4:
                self.classes.add("acf:illcond-lag")
                ok_all = False
                continue
            self.judged["acf-invariance"] += 1
            self.note_ratio("acf", abs(aa[k] - ab[k]) / (ua[k] + ub[k]))
            if not abs(aa[k] - ab[k]) <= tol:
                self.fail("acf/%s/changed" % rel, "cmds %d,%d: ACF[%d] %r vs %r (tolerance %.3g, n=%d)"
                          % (ia, ib, k, aa[k], ab[k], tol, len(ya)))
                return
        pa, pb = A.v.get("p"), B.v.get("p")
        if not pa or not pb or not ok_all:
            return
        ra, rb = self._durbin_levinson(aa), self._durbin_levinson(ab)
        sens = 0.0
        for k in range(1, nlag + 1):
            dk = abs(ra[k] - rb[k])
            if dk != dk:
                self.classes.add("pacf:illcond-lag")
                break
            sens = max(sens, dk)
            tol = 1e-9 + 1e4 * sens
            if tol > 1e-3:
                self.classes.add("pacf:illcond-lag")
                break
            self.judged["pacf-invariance"] += 1
            if not abs(pa[k] - pb[k]) <= tol:
                self.fail("pacf/%s/changed" % rel, "cmds %d,%d: PACF[%d] %r vs %r (tolerance %.3g)"
                          % (ia, ib, k, pa[k], pb[k], tol))
                return

    # -- verdict ---------------------------------------------------------------
    def first_failure(self):
        return self.fails[0] if self.fails else None
