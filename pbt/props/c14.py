"""C14 - recorded histories equal the true state trajectory; time averages are exact."""
from .. import simprop

ID = "C14"
FAMILY = "C14"
VARIANTS = ("asan", "rel")      # rel: only to re-judge a case that UBSan stopped (simprop)
BUDGET = {"quick": dict(examples=80000, seconds=55), "thorough": dict(examples=2000000, seconds=540)}
NONTRIVIAL = {'recording-rich-history', 'recording-several-windows'}
PROFILES = [(4, 'recording'), (1, 'mixed')]
RULE = ('Hypothesis-generated scenarios (profile recording 80%, mixed 20%): recorded resources / pools / buffers / queues with recording switched on and off at generated times and programs rich in indirect state changes (preemption, rollback, drops at end/stop, priority-queue cancel, several changes per instant). Oracle: per recording window the samples have non-decreasing times, start with (value at switch-on, switch-on time) and define the same step function as the end-of-instant values of the object; the time-weighted mean from cmb_timeseries_summarize equals the exact time average (Fraction arithmetic, rel. tol. 1e-12). Non-trivial = a history of >= 4 samples or several recording windows. distinct = SHA-1 of the scenario text.')
RULE = RULE + simprop.RULE_SUFFIX
ASSUMPTIONS = ["trace oracles in pbt/simtrace.py (soundness rules DESIGN.md par. 2.1)",
               "operations whose documented precondition is false when reached are skipped by the interpreter "
               "(counted), never executed"]


def strategy(tier):
    return simprop.strategy_for(PROFILES, tier)


def serialize(case):
    return case


def evaluate(text, ctx):
    return simprop.evaluate_family(text, ctx, FAMILY, NONTRIVIAL)
