"""Shared by c15.py and c16.py: the sampler table of executor mode "random",
the reference generator, trace parsing."""
import numpy as np

MASK = (1 << 64) - 1
DUMMY_SEED = 0x0000DEAD5EED0000

# name -> (argument signature, output kind)   d double, u unsigned, l long, v vector, a alias table
SAMPLERS = {
    "sfc64": ("", "u"), "curseed": ("", "u"), "random": ("", "d"),
    "uniform": ("dd", "d"), "triangular": ("ddd", "d"), "std_normal": ("", "d"),
    "normal": ("dd", "d"), "lognormal": ("dd", "d"), "logistic": ("dd", "d"),
    "cauchy": ("dd", "d"), "std_exponential": ("", "d"), "exponential": ("d", "d"),
    "erlang": ("ud", "d"), "hypoexponential": ("v", "d"), "hyperexponential": ("vv", "d"),
    "std_gamma": ("d", "d"), "gamma": ("dd", "d"), "std_beta": ("dd", "d"),
    "beta": ("dddd", "d"), "PERT_mod": ("dddd", "d"), "PERT": ("ddd", "d"),
    "weibull": ("dd", "d"), "pareto": ("dd", "d"), "chisquared": ("d", "d"),
    "F_dist": ("dd", "d"), "std_t_dist": ("d", "d"), "t_dist": ("ddd", "d"),
    "rayleigh": ("d", "d"), "flip": ("", "i"), "bernoulli": ("d", "i"),
    "geometric": ("d", "i"), "binomial": ("ud", "i"), "negative_binomial": ("ud", "i"),
    "pascal": ("ud", "i"), "poisson": ("d", "i"), "dice": ("ll", "i"),
    "loaded_dice": ("v", "i"), "alias_sample": ("a", "i"),
}


class RefSfc64(object):
    """The DOCUMENTED generator, written from the documentation and the public
    descriptions of the two algorithms (not transcribed from cmb_random.c):
    splitmix64 (Steele/Lea/Vigna: state += 0x9e3779b97f4a7c15; mix with shifts
    30, 27, 31 and the two multipliers) started at the seed yields the four state
    words a, b, c, counter in that order; sfc64 (Doty-Humphrey, PractRand: rotation
    24, right shift 11, left shift 3); 20 outputs are discarded."""

    def __init__(self, seed):
        sm = seed & MASK

        def splitmix():
            nonlocal sm
            sm = (sm + 0x9E3779B97F4A7C15) & MASK
            z = sm
            z = ((z ^ (z >> 30)) * 0xBF58476D1CE4E5B9) & MASK
            z = ((z ^ (z >> 27)) * 0x94D049BB133111EB) & MASK
            return z ^ (z >> 31)

        self.a = splitmix()
        self.b = splitmix()
        self.c = splitmix()
        self.d = splitmix()
        for _ in range(20):
            self.next()

    def next(self):
        tmp = (self.a + self.b + self.d) & MASK
        self.d = (self.d + 1) & MASK
        self.a = self.b ^ (self.b >> 11)
        self.b = (self.c + (self.c << 3)) & MASK
        self.c = ((((self.c << 24) & MASK) | (self.c >> 40)) + tmp) & MASK
        return tmp


def _ld(tok):
    """%La text (hex long double, possibly more mantissa digits than a double) -> float"""
    if "inf" in tok or "nan" in tok:
        return float(tok)
    return float.fromhex(tok)


class OpOut(object):
    __slots__ = ("tag", "seg", "round", "op", "sampler", "calls", "draws", "maxdraws", "one", "payload")

    def values_u64(self):
        """emit payload -> numpy uint64 array of bit patterns"""
        return np.frombuffer(bytes.fromhex(self.payload), dtype=">u8").astype(np.uint64)

    def values_f64(self):
        return np.frombuffer(bytes.fromhex(self.payload), dtype=">f8").astype(np.float64)

    def values_i64(self):
        return np.frombuffer(bytes.fromhex(self.payload), dtype=">i8").astype(np.int64)

    def bins(self):
        """-> dict(nan, min, max, sum, sumsq, counts ndarray)"""
        kv = dict(t.split("=", 1) for t in self.payload.split())
        return dict(nan=int(kv["nan"]), min=float.fromhex(kv["min"]) if "inf" not in kv["min"] else float(kv["min"]),
                    max=float.fromhex(kv["max"]) if "inf" not in kv["max"] else float(kv["max"]),
                    sum=_ld(kv["sum"]), sumsq=_ld(kv["sumsq"]),
                    counts=np.array([int(c) for c in kv["counts"].split(",")], dtype=np.int64))

    def hist(self):
        out = {}
        for tok in self.payload.split():
            k, v = tok.split(":")
            out[k if k == "lost" else int(k)] = int(v)
        return out


class Trace(object):
    """Parsed trace of one mode-random run."""

    def __init__(self, res):
        self.outs = []          # OpOut in trace order
        self.exceeded = []      # (seg, round, op, sampler, call, draws)
        self.hook = None
        self.last_mark = None   # (seg, op) or ("alias_create")
        self.done = False
        for ln in res.lines:
            c = ln[:2]
            if c == "B ":
                p = ln.split()
                self.last_mark = (int(p[1]), int(p[2])) if len(p) == 3 else "alias_create"
            elif c in ("o ", "d ", "h ", "b "):
                head, _, payload = ln.partition(" : ")
                p = head.split()
                o = OpOut()
                o.tag, o.seg, o.round, o.op, o.sampler = p[0], int(p[1]), int(p[2]), int(p[3]), p[4]
                kv = dict(t.split("=") for t in p[5:])
                o.calls, o.draws = int(kv["calls"]), int(kv["draws"])
                o.maxdraws, o.one = int(kv["max"]), int(kv["one"])
                o.payload = payload.strip()
                self.outs.append(o)
            elif c == "X ":
                p = ln.split()
                self.exceeded.append((int(p[1]), int(p[2]), int(p[3]), p[4],
                                      int(p[5].split("=")[1]), int(p[6].split("=")[1])))
            elif c == "I ":
                self.hook = ln.strip().endswith("hook=1")
            elif c == "Z ":
                self.done = True


def op_lines(text):
    """The case's op list in executor numbering: [(segment index, line)]; and segment plans."""
    ops, segs = [], []
    for ln in text.split("\n"):
        s = ln.strip()
        if not s or s[0] == "#":
            continue
        w = s.split()[0]
        if w == "segment":
            segs.append(s.split()[1])
        elif w in ("seed", "terminate", "call", "emit", "dig", "hist"):
            ops.append((len(segs) - 1, s))
    return ops, segs
