"""C05 - a resource has at most one holder at any time (mutual exclusion)."""
from .. import simprop

ID = "C05"
FAMILY = "C05"
VARIANTS = ("asan", "rel")      # rel: only to re-judge a case that UBSan stopped (simprop)
BUDGET = {"quick": dict(examples=80000, seconds=55), "thorough": dict(examples=2000000, seconds=540)}
NONTRIVIAL = {"resource-contended", "resource-preempted"}
RULE = ("Hypothesis-generated scenarios (profile 'mutex' 75%, 'mixed' 25%): 2-6 processes running acquire / hold 0|1 / "
        "release / immediate re-acquire / preempt scripts on 1-3 resources with interrupts, timers, stops and ends "
        "while holding. Oracle: holder model built from what the callers were told (SUCCESS returns, releases, "
        "evictions by a successful preempt, ends) - a SUCCESS while another live process holds is a violation; after "
        "every event held_by_process/in_use/available must describe exactly the model holder. Non-trivial = some "
        "process had to wait for a resource or a holder was preempted. distinct = SHA-1 of the scenario text.")
RULE = RULE + simprop.RULE_SUFFIX
ASSUMPTIONS = ["trace oracles in pbt/simtrace.py (soundness rules DESIGN.md par. 2.1)",
               "a process never acquires a resource it already holds; release only of resources it holds"]


def strategy(tier):
    return simprop.strategy_for([(3, "mutex"), (1, "mixed")], tier)


def serialize(case):
    return case


def evaluate(text, ctx):
    return simprop.evaluate_family(text, ctx, FAMILY, NONTRIVIAL)
