"""C12 - queued objects are delivered exactly once, in FIFO/priority order, within capacity."""
from .. import simprop

ID = "C12"
FAMILY = "C12"
VARIANTS = ("asan", "rel")      # rel: only to re-judge a case that UBSan stopped (simprop)
BUDGET = {"quick": dict(examples=80000, seconds=55), "thorough": dict(examples=2000000, seconds=540)}
NONTRIVIAL = {'blocked-oput', 'blocked-kput', 'blocked-oget', 'pq-cancel', 'blocked-kget', 'pq-reprio'}
PROFILES = [(4, 'queue'), (1, 'mixed')]
RULE = ("Hypothesis-generated scenarios (profile queue 80%, mixed 20%): object queues and priority queues of capacity 1, small, unlimited; values incl. 0 (NULL) and duplicates; blocking on both ends; interrupts / timeouts / stops of blocked producers and consumers; cancel / reprioritise / position by handle. Oracle: model sequence (object queue: order of successful put returns) / model map (priority queue: max by priority then handle); every successful get delivers exactly the model's next object, a failed get delivers NULL, length equals the model size after every event and never exceeds capacity, cancel / position / handles agree with the model. Non-trivial = a getter or putter had to wait, or a cancel / reprioritise hit a queued object. distinct = SHA-1 of the scenario text.")
RULE = RULE + simprop.RULE_SUFFIX
ASSUMPTIONS = ["trace oracles in pbt/simtrace.py (soundness rules DESIGN.md par. 2.1)",
               "operations whose documented precondition is false when reached are skipped by the interpreter "
               "(counted), never executed"]


def strategy(tier):
    return simprop.strategy_for(PROFILES, tier)


def serialize(case):
    return case


def evaluate(text, ctx):
    return simprop.evaluate_family(text, ctx, FAMILY, NONTRIVIAL)
