"""Hypothesis generators for simulation scenarios (DESIGN.md par. 2).

A scenario is data: objects, observation links, processes with scripts, and
dispatcher-level commands. All times are small integers or halves and durations
include 0, so that several causes regularly fall on the same simulated instant.
Validity is by construction where possible; what depends on run-time state
(holdings, process status) is filtered by the interpreter, which skips and logs.
"""
from hypothesis import strategies as st

from .common import fhex

DUR = [0.0, 0.0, 0.5, 1.0, 1.0, 2.0, 3.0]
TIMES = [0.0, 0.0, 0.5, 1.0, 1.0, 2.0, 3.0, 4.0]
PRIO_SMALL = [-2, -1, 0, 0, 0, 1, 1, 2]
PRIOS = st.one_of(st.sampled_from(PRIO_SMALL), st.sampled_from(PRIO_SMALL), st.sampled_from(PRIO_SMALL),
                  st.sampled_from(["min", "max", -5, 7]))
USER_SIGS = [-2, -2, 1, 2, 9]            # CMB_PROCESS_INTERRUPTED and user values (timers use other values)
TIMER_SIGS = [-5, -5, 3, 4]

# kind -> weight, per profile
PROFILES = {
    "timing": dict(hold=7, timer_add=5, timer_set=2, timer_cancel=2, timers_clear=1, ftimer_add=3, ftimer_cancel=1,
                   ftimers_clear=2, yield_=2, resume=3,
                   wait_proc=3, wait_ev=3, usched=3, ucancel=1, uresched=1, interrupt=5, stop=2,
                   acquire=3, release=2, preempt=1, bget=1, bput=1, oget=1, oput=1, cwait=1, csignal=1,
                   pacq=1, prel=1, setprio=1, ret=1),
    "mutex": dict(acquire=9, release=7, preempt=4, hold=6, interrupt=2, stop=2, timer_add=3, setprio=1,
                  ret=1, wait_proc=1, ftimer_add=1, ftimers_clear=1),
    "queueing": dict(acquire=4, release=3, pacq=3, prel=2, bget=3, bput=3, oget=3, oput=3, kget=2, kput=2,
                     cwait=3, csignal=2, ctrset=2, hold=5, setprio=4, interrupt=1, timer_add=1, preempt=1),
    "pool": dict(pacq=8, ppre=5, prel=6, hold=5, interrupt=3, timer_add=3, stop=1, setprio=2, preempt=1,
                 acquire=1, release=1, ret=1),
    "wakeup": dict(acquire=4, release=4, pacq=3, ppre=1, prel=3, bget=3, bput=3, oget=3, oput=3, kget=2, kput=2,
                   kcancel=2, hold=5, timer_add=5, interrupt=4, stop=2, preempt=2, ret=1, ftimer_add=2, ftimers_clear=1,
                   ftimer_cancel=1),
    "lifecycle": dict(ret=3, exit_=3, stop=5, wait_proc=6, start=4, timer_add=3, hold=5, acquire=3, release=1,
                      pacq=2, prel=1, interrupt=2, bget=1, oget=1, cwait=1, yield_=1, usched=1, wait_ev=1,
                      ftimer_add=2, ftimers_clear=1),
    "buffer": dict(bput=8, bget=8, hold=4, timer_add=4, interrupt=4, stop=1, setprio=1),
    "queue": dict(oput=6, oget=6, kput=6, kget=6, kcancel=3, kreprio=3, kpos=3, opos=2, hold=3, timer_add=3,
                  interrupt=3, stop=1),
    "condition": dict(cwait=8, csignal=5, ctrset=5, ccancel=2, cremove=1, cunsub=2, csub=2, ftimer_add=1,
                      acquire=3, release=3, pacq=2, prel=2,
                      bput=2, bget=2, oput=2, oget=2, hold=4, timer_add=3, interrupt=2, stop=1, setprio=1),
    "recording": dict(acquire=4, release=3, preempt=3, pacq=4, ppre=3, prel=3, bput=3, bget=3, oput=3, oget=3,
                      kput=3, kget=3, kcancel=3, hold=5, interrupt=3, timer_add=2, stop=3, rec_on=2, rec_off=2, ret=1),
}
PROFILES["mixed"] = {}
for _p in list(PROFILES.values()):
    for _k, _w in _p.items():
        PROFILES["mixed"][_k] = max(PROFILES["mixed"].get(_k, 0), min(_w, 4))

# which object kinds a profile wants (min, max)
OBJECTS = {
    "timing": dict(res=(0, 2), pool=(0, 1), buf=(0, 1), oq=(0, 1), pq=(0, 0), cond=(0, 1)),
    "mutex": dict(res=(1, 3), pool=(0, 0), buf=(0, 0), oq=(0, 0), pq=(0, 0), cond=(0, 0)),
    "queueing": dict(res=(0, 1), pool=(0, 1), buf=(0, 1), oq=(0, 1), pq=(0, 1), cond=(0, 1)),
    "pool": dict(res=(0, 1), pool=(1, 2), buf=(0, 0), oq=(0, 0), pq=(0, 0), cond=(0, 0)),
    "wakeup": dict(res=(0, 2), pool=(0, 1), buf=(0, 1), oq=(0, 1), pq=(0, 1), cond=(0, 0)),
    "lifecycle": dict(res=(0, 2), pool=(0, 1), buf=(0, 1), oq=(0, 1), pq=(0, 0), cond=(0, 1)),
    "buffer": dict(res=(0, 0), pool=(0, 0), buf=(1, 2), oq=(0, 0), pq=(0, 0), cond=(0, 0)),
    "queue": dict(res=(0, 0), pool=(0, 0), buf=(0, 0), oq=(0, 2), pq=(0, 2), cond=(0, 0)),
    "condition": dict(res=(0, 2), pool=(0, 1), buf=(0, 1), oq=(0, 1), pq=(0, 0), cond=(1, 2)),
    "recording": dict(res=(0, 2), pool=(0, 1), buf=(0, 1), oq=(0, 1), pq=(0, 1), cond=(0, 0)),
    "mixed": dict(res=(0, 2), pool=(0, 1), buf=(0, 1), oq=(0, 1), pq=(0, 1), cond=(0, 1)),
}
NPROCS = {"queueing": (3, 12), "mutex": (2, 6), "lifecycle": (2, 6)}

NEEDS = {  # op kind -> object kind it needs
    "acquire": "res", "release": "res", "preempt": "res", "pacq": "pool", "ppre": "pool", "prel": "pool",
    "bput": "buf", "bget": "buf", "oput": "oq", "oget": "oq", "opos": "oq", "kput": "pq", "kget": "pq",
    "kcancel": "pq", "kreprio": "pq", "kpos": "pq", "cwait": "cond", "csignal": "cond", "ccancel": "cond",
    "cremove": "cond", "cunsub": "cond", "csub": "cond",
}
DISPATCHER_OK = ["interrupt", "stop", "start", "setprio", "csignal", "ctrset", "ccancel", "cremove", "resume",
                 "rec_on", "rec_off", "kcancel", "kreprio", "ucancel", "usched", "ftimer_add", "ftimer_cancel",
                 "ftimers_clear", "cunsub", "csub"]


@st.composite
def scenario(draw, profile, big=False):
    """big=True (thorough tier): more processes (up to 20 for the queueing profile) and scripts of up to 40 ops."""
    weights = PROFILES[profile]
    want = OBJECTS[profile]
    env = {k: [] for k in ("res", "pool", "buf", "oq", "pq", "cond")}
    lines = ["mode sim", "start 0"]
    caps = {}
    for kind, pre in (("res", "R"), ("pool", "P"), ("buf", "B"), ("oq", "Q"), ("pq", "K"), ("cond", "C")):
        lo, hi = want[kind]
        n = draw(st.integers(lo, hi)) if hi > 0 else 0
        for i in range(n):
            name = "%s%d" % (pre, i)
            env[kind].append(name)
            if kind == "res" or kind == "cond":
                lines.append("%s %s" % (kind, name))
            else:
                if kind == "pool":
                    cap = draw(st.sampled_from([1, 2, 3, 3, 5, 8]))
                elif kind == "buf":
                    cap = draw(st.sampled_from([1, 2, 3, 6, "unlimited"]))
                else:
                    cap = draw(st.sampled_from([1, 1, 2, 4, "unlimited"]))
                caps[name] = cap
                lines.append("%s %s %s" % (kind, name, cap))
    if not any(env.values()):
        env["res"].append("R0")
        lines.append("res R0")
    # observation links
    guards = []
    for r in env["res"] + env["pool"]:
        guards.append(r)
    for b in env["buf"] + env["oq"] + env["pq"]:
        guards += [b + ".front", b + ".rear"]
    links_decl = []
    for c in env["cond"]:
        if guards:
            for g in draw(st.lists(st.sampled_from(guards), max_size=3, unique=True)):
                links_decl.append((c, g))
                lines.append("observe %s %s%s" % (c, g, draw(st.sampled_from(["", "", "", " subscribe"]))))
    recordable = env["res"] + env["pool"] + env["buf"] + env["oq"] + env["pq"]
    if recordable and ("rec_on" in weights or draw(st.integers(0, 5)) == 0):
        for r in draw(st.lists(st.sampled_from(recordable), max_size=3, unique=True)):
            lines.append("record %s" % r)

    kinds = []
    for k, w in sorted(weights.items()):
        need = NEEDS.get(k)
        if need is not None and not env[need]:
            continue
        if k in ("rec_on", "rec_off") and not recordable:
            continue
        kinds += [k] * w
    lo, hi = NPROCS.get(profile, (1, 5))
    if big:
        hi = 20 if profile == "queueing" else hi + 4
    nprocs = draw(st.integers(lo, hi))
    pnames = ["p%d" % i for i in range(nprocs)]

    # A static approximation of the run-time state keeps most generated ops enabled when reached
    # (the interpreter still re-checks every precondition and skips what does not hold).
    glob = dict(nuev=0, nkput=0, nact=0)
    if "usched" in weights:
        glob["nact"] = draw(st.sampled_from([0, 1, 2]))

    def gen_op(in_process, me=None, ps=None):
        k = draw(st.sampled_from(kinds))
        if not in_process and k not in DISPATCHER_OK:
            k = draw(st.sampled_from(["interrupt", "stop", "setprio", "interrupt"]))
        if ps is not None:
            # steer away from ops that would certainly be skipped
            if k in ("acquire", "preempt") and len(ps["held"]) == len(env["res"]):
                k = "release"
            if k == "release" and not ps["held"]:
                k = "acquire" if env["res"] else "hold"
            if k == "prel" and not any(ps["pool"].values()):
                k = "pacq"
            if k == "timer_cancel" and ps["ntimers"] == 0:
                k = "timer_add"
            if k == "wait_proc" and nprocs < 2:
                k = "hold"
        if k in ("wait_ev", "ucancel", "uresched") and glob["nuev"] == 0:
            k = "usched"
        if k in ("kcancel", "kreprio", "kpos") and glob["nkput"] == 0:
            k = "kput"
        if k in ("cunsub", "csub") and not links_decl:
            k = "csignal"
        pick = lambda kind: draw(st.sampled_from(env[kind]))

        def tgt(other=False):
            names = [n for n in pnames if not (other and n == me)] or pnames
            # interrupts and stops aimed at oneself are always enabled; mix them in
            if not other and me is not None and draw(st.integers(0, 3)) == 0:
                return me
            return draw(st.sampled_from(names))
        if ps is not None:
            if k in ("acquire", "preempt"):
                r = draw(st.sampled_from([x for x in env["res"] if x not in ps["held"]]))
                ps["held"].add(r)
                return "%s %s" % (k, r)
            if k == "release":
                r = draw(st.sampled_from(sorted(ps["held"])))
                ps["held"].discard(r)
                return "release %s" % r
            if k in ("pacq", "ppre"):
                p = pick("pool")
                room = caps[p] - ps["pool"].get(p, 0)
                if room >= 1:
                    n = draw(st.integers(1, min(room, 5)))
                    ps["pool"][p] = ps["pool"].get(p, 0) + n
                    return "%s %s %d" % (k, p, n)
                k = "prel"
            if k == "prel":
                cands = [x for x in env["pool"] if ps["pool"].get(x, 0) > 0]
                if cands:
                    p = draw(st.sampled_from(cands))
                    n = draw(st.integers(1, ps["pool"][p]))
                    ps["pool"][p] -= n
                    return "prel %s %d" % (p, n)
                return "hold %s" % fhex(draw(st.sampled_from(DUR)))
            if k in ("timer_add", "timer_set"):
                ps["ntimers"] += 1
        if k == "usched":
            glob["nuev"] += 1
        if k == "kput":
            glob["nkput"] += 1
        if k == "hold":
            return "hold %s" % fhex(draw(st.sampled_from(DUR)))
        if k == "yield_":
            return "yield"
        if k in ("acquire", "release", "preempt"):
            return "%s %s" % (k, pick("res"))
        if k in ("pacq", "ppre", "prel"):
            p = pick("pool")
            return "%s %s %d" % (k, p, draw(st.integers(1, min(caps[p], 5))))
        if k in ("bput", "bget"):
            b = pick("buf")
            amt = draw(st.sampled_from([0, 1, 1, 2, 3, 5, 9, 2 ** 64 - 2])) if k == "bget" else \
                draw(st.sampled_from([1, 1, 2, 3, 5, 9]))
            if caps[b] == "unlimited" and k == "bput":
                amt = draw(st.sampled_from([1, 3, 2 ** 63, 2 ** 64 - 2]))
            return "%s %s %d" % (k, b, amt)
        if k == "oput":
            return "oput %s %d" % (pick("oq"), draw(st.sampled_from([0, 1, 1, 2, 3, 7])))
        if k == "oget":
            return "oget %s" % pick("oq")
        if k == "opos":
            return "opos %s %d" % (pick("oq"), draw(st.sampled_from([0, 1, 2, 3])))
        if k == "kput":
            return "kput %s %d %s" % (pick("pq"), draw(st.sampled_from([0, 1, 1, 2, 3, 7])), draw(PRIOS))
        if k == "kget":
            return "kget %s" % pick("pq")
        if k in ("kcancel", "kpos"):
            return "%s %s %d" % (k, pick("pq"), draw(st.integers(0, 6)))
        if k == "kreprio":
            return "kreprio %s %d %s" % (pick("pq"), draw(st.integers(0, 6)), draw(PRIOS))
        if k == "cwait":
            c = pick("cond")
            preds = [("ctr", str(draw(st.integers(0, 1))), draw(st.integers(0, 2))), ("false", "0", 0), ("true", "0", 0)]
            if env["res"]:
                preds.append(("resfree", pick("res"), 0))
                preds.append(("resfree", pick("res"), 0))
            if env["pool"]:
                preds.append(("poolavail", pick("pool"), draw(st.integers(1, 3))))
            if env["buf"]:
                preds.append(("buflevel", pick("buf"), draw(st.integers(1, 3))))
            if env["oq"]:
                preds.append(("qlen", pick("oq"), draw(st.integers(1, 2))))
            if env["pq"]:
                preds.append(("qlen", pick("pq"), draw(st.integers(1, 2))))
            pk, po, pa = draw(st.sampled_from(preds))
            return "cwait %s %s %s %d" % (c, pk, po, pa)
        if k == "csignal":
            return "csignal %s" % pick("cond")
        if k in ("ccancel", "cremove"):
            return "%s %s %s" % (k, pick("cond"), tgt())
        if k == "ctrset":
            return "ctrset %d %d" % (draw(st.integers(0, 1)), draw(st.integers(0, 3)))
        if k == "wait_proc":
            return "wait_proc %s" % tgt(other=True)
        if k in ("wait_ev", "ucancel", "timer_cancel"):
            return "%s %d" % (k, draw(st.integers(0, 3)))
        if k == "uresched":
            return "uresched %d %s" % (draw(st.integers(0, 3)), fhex(draw(st.sampled_from(DUR))))
        if k == "usched":
            act = ""
            if glob["nact"] and draw(st.integers(0, 2)) == 0:
                act = " act %d" % draw(st.integers(0, glob["nact"] - 1))
            return "usched %s %s%s" % (fhex(draw(st.sampled_from(DUR))), draw(PRIOS), act)
        if k in ("timer_add", "timer_set"):
            return "%s %s %d" % (k, fhex(draw(st.sampled_from(DUR))), draw(st.sampled_from(TIMER_SIGS)))
        if k == "timers_clear":
            return "timers_clear"
        if k == "ftimer_add":
            return "ftimer_add %s %s %d" % (tgt(other=True), fhex(draw(st.sampled_from(DUR))), draw(st.sampled_from(TIMER_SIGS)))
        if k == "ftimer_cancel":
            return "ftimer_cancel %s %d" % (tgt(other=True), draw(st.integers(0, 3)))
        if k == "ftimers_clear":
            return "ftimers_clear %s" % tgt(other=True)
        if k in ("cunsub", "csub"):
            return "%s %s %s" % ((k,) + draw(st.sampled_from(links_decl)))
        if k == "interrupt":
            return "interrupt %s %d %s" % (tgt(), draw(st.sampled_from(USER_SIGS)), draw(PRIOS))
        if k == "resume":
            return "resume %s %d" % (tgt(), draw(st.sampled_from([0, 0, 1, 5])))
        if k == "stop":
            return "stop %s %d" % (tgt(), draw(st.integers(0, 9)))
        if k == "setprio":
            return "setprio %s %s" % (tgt(), draw(PRIOS))
        if k == "start":
            return "start %s" % tgt()
        if k in ("rec_on", "rec_off"):
            return "%s %s" % (k, draw(st.sampled_from(recordable)))
        if k == "exit_":
            return "exit %d" % draw(st.integers(0, 9))
        if k == "ret":
            return "return %d" % draw(st.integers(0, 9))
        raise AssertionError(k)

    maxops = 14 if nprocs <= 6 else 6
    if big:
        maxops = 40 if nprocs <= 6 else 12
    for i in range(nprocs):
        start = draw(st.sampled_from(TIMES + (["never"] if "start" in weights else [])))
        lines.append("proc p%d prio %s start %s sprio %s" % (
            i, draw(PRIOS), start if start == "never" else fhex(start), draw(st.sampled_from([0, 0, 1, -1]))))
        nops = draw(st.integers(1, maxops))
        ps = dict(held=set(), pool={}, ntimers=0)
        for _ in range(nops):
            lines.append("op " + gen_op(True, "p%d" % i, ps))
        if draw(st.integers(0, 2)) == 0:
            # stay alive for a while so that interrupts / stops from others find a running target
            lines.append("op hold %s" % fhex(draw(st.sampled_from([1.0, 2.0, 3.0]))))
    ncmds = draw(st.integers(0, 4))
    for _ in range(ncmds):
        lines.append("at %s %s %s" % (fhex(draw(st.sampled_from(TIMES))), draw(PRIOS), gen_op(False)))
    # what user events do when they execute (besides waking their waiters): stop / restart / interrupt ...
    for a in range(glob["nact"]):
        tgtp = draw(st.sampled_from(pnames))
        prog = draw(st.sampled_from([["stop %s 6" % tgtp], ["stop %s 6" % tgtp, "start %s" % tgtp],
                                     ["interrupt %s -2 %s" % (tgtp, draw(PRIOS))], [gen_op(False)], [gen_op(False), gen_op(False)]]))
        for o in prog:
            if not o.startswith("usched"):
                lines.append("action %d %s" % (a, o))
    return "\n".join(lines) + "\n"


@st.composite
def stress(draw, heavy=False):
    """C10: container populations on both sides of their growth thresholds at the moment the library
    iterates over them or holds a pointer into them (DESIGN.md par. 3 C10)."""
    kind = draw(st.sampled_from(["event-waiters", "event-waiters", "proc-waiters", "guard-waiters"]
                                + (["timers", "queue-tags"] if heavy else [])))
    L = ["mode sim", "start 0"]
    if kind == "event-waiters":
        n = draw(st.sampled_from([1, 2, 3, 7, 8, 9, 15, 16, 17, 33]))
        evprio = draw(st.sampled_from([0, 1, -1]))
        L.append("proc p0 prio 0 start 0 sprio 0")
        L.append("op usched %s %d" % (fhex(1.0), evprio))
        extra = draw(st.sampled_from(["", "hold", "exit"]))
        if extra == "hold":
            L.append("op hold %s" % fhex(2.0))
        for i in range(1, n + 1):
            L.append("proc p%d prio %d start 0 sprio 0" % (i, draw(st.sampled_from([0, 0, 1, -1]))))
            if draw(st.integers(0, 3)) == 0:
                L.append("op timer_add %s -5" % fhex(draw(st.sampled_from([1.0, 2.0]))))
            L.append("op wait_ev 0")
            if draw(st.integers(0, 2)) == 0:
                L.append("op hold %s" % fhex(0.0))
        how = draw(st.sampled_from(["execute", "execute", "cancel"]))
        # bring the queue to its capacity minus j just before the awaited event is dispatched
        L.append("at %s %d fill_to 0 %d" % (fhex(1.0), evprio + 2, draw(st.integers(0, 3))))
        if how == "cancel":
            L.append("at %s %d ucancel 0" % (fhex(1.0), evprio + 1))
    elif kind == "proc-waiters":
        n = draw(st.sampled_from([1, 7, 8, 9, 17, 33]))
        L.append("proc p0 prio 0 start 0 sprio 0")
        L.append("op hold %s" % fhex(1.0))
        L.append(draw(st.sampled_from(["op return 3", "op exit 4", "op stop p0 5", "op hold 0x1p3"])))
        for i in range(1, n + 1):
            L.append("proc p%d prio %d start 0 sprio 0" % (i, draw(st.sampled_from([0, 0, 1, -1]))))
            L.append("op wait_proc p0")
        L.append("at %s 3 fill_to 0 %d" % (fhex(1.0), draw(st.integers(0, 3))))
        if draw(st.booleans()):
            L.append("at %s 2 stop p0 7" % fhex(1.0))
    elif kind == "guard-waiters":
        n = draw(st.sampled_from([7, 8, 9, 15, 16, 17, 20]))
        L.insert(2, "res R0")
        L.insert(3, "pool P0 2")
        L.append("proc p0 prio 5 start 0 sprio 0")
        L += ["op acquire R0", "op pacq P0 2", "op hold %s" % fhex(1.0), "op release R0", "op prel P0 2"]
        for i in range(1, n + 1):
            L.append("proc p%d prio %s start 0 sprio 0" % (i, draw(PRIOS)))
            L.append(draw(st.sampled_from(["op acquire R0", "op pacq P0 1", "op preempt R0", "op ppre P0 1"])))
            L.append(draw(st.sampled_from(["op hold 0x0p0", "op release R0", "op prel P0 1", "op return 1"])))
        for _ in range(draw(st.integers(0, 3))):
            L.append("at %s %s %s p%d %s" % (fhex(draw(st.sampled_from([0.5, 1.0]))), draw(PRIOS),
                                            draw(st.sampled_from(["setprio", "stop"])), draw(st.integers(1, n)),
                                            draw(st.sampled_from([3, -3, 0]))))
    elif kind == "timers":
        n = draw(st.sampled_from([127, 128, 129, 8191, 8192, 8200]))
        L.append("proc p0 prio 0 start 0 sprio 0")
        L.append("op rep %d timer_add %s 3" % (n, fhex(1.0)))
        L.append(draw(st.sampled_from(["op timers_clear", "op hold 0x1p1", "op return 1", "op timer_set 0x1p0 4"])))
        L.append("op hold %s" % fhex(2.0))
    else:
        n = draw(st.sampled_from([255, 256, 257, 16383, 16384, 16400]))
        L.insert(2, "oq Q0 unlimited")
        L.append("proc p0 prio 0 start 0 sprio 0")
        L.append("op rep %d oput Q0 1" % n)
        L.append("op rep %d oget Q0" % draw(st.sampled_from([1, n - 1, n])))
    return "\n".join(L) + "\n"


@st.composite
def coincide(draw):
    """Several causes for the same process on the same simulated instant, by construction.

    One or two *waiters* arm a timeout that expires at instant d and enter a blocking call; a
    *holder* keeps the awaited thing unavailable until about d; 1-4 *actors* (dispatcher commands and
    processes that hold until d) act exactly at d with generated priorities: grant what is awaited,
    cancel / remove / signal the condition, interrupt, stop, resume, reprioritise, end the awaited
    process, execute or cancel the awaited event. What the waiter does afterwards (a hold, another
    wait) is where a stale wake-up would show.
    """
    d = draw(st.sampled_from([0.0, 0.5, 1.0, 1.0, 2.0]))
    L = ["mode sim", "start 0", "res R0", "pool P0 2", "buf B0 2", "oq Q0 1", "pq K0 1", "cond C0"]
    observed = draw(st.lists(st.sampled_from(["R0", "P0", "B0.front", "B0.rear", "Q0.front", "K0.front"]),
                             max_size=2, unique=True))
    for g in observed:
        L.append("observe C0 %s" % g)
    kind = draw(st.sampled_from(["cwait", "cwait", "acquire", "pacq", "bget", "bput", "oget", "oput", "kget",
                                 "kput", "wait_proc", "wait_ev", "wait_ev", "hold", "yield", "ptopup"]))
    nwait = draw(st.integers(1, 2))
    if kind == "ptopup":
        # a process that already holds units of a pool asks for more, gets a part and waits; a second
        # waiter queues behind it; whatever ends the first wait rolls its partial grab back
        L[3] = "pool P0 4"
        nwait = 2
    # the holder (p0) makes the awaited thing unavailable and keeps it so until d
    hold_ops = {"acquire": ["acquire R0"], "pacq": ["pacq P0 2"], "ptopup": ["pacq P0 2"], "bput": ["bput B0 2"], "oput": ["oput Q0 7"],
                "kput": ["kput K0 7 0"], "wait_ev": ["usched %s 0%s" % (fhex(d), draw(st.sampled_from(["", " act 0"])))],
                "cwait": ["acquire R0", "pacq P0 1"]}
    free_ops = {"acquire": ["release R0"], "pacq": ["prel P0 %d" % draw(st.integers(1, 2))],
                "ptopup": draw(st.sampled_from([[], [], ["prel P0 %d" % draw(st.integers(1, 2))]])),
                "bput": ["bget B0 %d" % draw(st.integers(1, 2))], "oput": ["oget Q0"], "kput": ["kget K0"],
                "bget": ["bput B0 %d" % draw(st.integers(1, 2))], "oget": ["oput Q0 3"], "kget": ["kput K0 3 1"],
                "cwait": ["ctrset 0 1", "csignal C0"], "wait_ev": [], "wait_proc": [], "hold": [], "yield": []}
    L.append("proc p0 prio %s start 0 sprio 0" % draw(PRIOS))
    for o in hold_ops.get(kind, []):
        L.append("op " + o)
    L.append("op hold %s" % fhex(d))
    for o in free_ops.get(kind, []):
        if draw(st.integers(0, 3)) > 0:
            L.append("op " + o)
    if kind == "cwait" and draw(st.booleans()):
        L.append("op release R0")
    L.append(draw(st.sampled_from(["op hold 0x0p0", "op return 4", "op exit 5", "op hold 0x1p1", "op hold 0x1p1"])))
    wait_op = {"cwait": draw(st.sampled_from(["cwait C0 ctr 0 1", "cwait C0 resfree R0 0", "cwait C0 poolavail P0 2",
                                              "cwait C0 false 0 0"])),
               "acquire": draw(st.sampled_from(["acquire R0", "preempt R0"])), "pacq": "pacq P0 %d" % draw(st.integers(1, 2)),
               "bget": "bget B0 %d" % draw(st.integers(1, 3)), "bput": "bput B0 %d" % draw(st.integers(1, 3)),
               "oget": "oget Q0", "oput": "oput Q0 1", "kget": "kget K0", "kput": "kput K0 1 0",
               "wait_proc": "wait_proc p0", "wait_ev": "wait_ev 0", "hold": "hold %s" % fhex(d + 1.0), "yield": "yield",
               "ptopup": "pacq P0 %d" % draw(st.integers(2, 3))}[kind]
    after = ["hold 0x1p1", "hold 0x0p0", "yield", "cwait C0 false 0 0", "acquire R0", "oget Q0", "wait_proc p0",
             "timer_add 0x1p0 4", "return 3"]
    for w in range(1, nwait + 1):
        L.append("proc p%d prio %s start 0 sprio 0" % (w, draw(PRIOS)))
        if kind == "ptopup":
            if w == 1:
                L.append("op pacq P0 1")
            else:
                wait_op = "pacq P0 %d" % draw(st.integers(1, 2))
        if draw(st.integers(0, 4)) > 0:
            L.append("op timer_add %s %d" % (fhex(d), draw(st.sampled_from(TIMER_SIGS))))
            if draw(st.integers(0, 3)) == 0:
                L.append("op timer_add %s %d" % (fhex(d + draw(st.sampled_from([0.0, 1.0, 2.0]))), draw(st.sampled_from([3, 4]))))
        L.append("op " + wait_op)
        for _ in range(draw(st.integers(1, 3))):
            L.append("op " + draw(st.sampled_from(after)))
    nproc = nwait + 1
    # actors at exactly d
    acts = ["interrupt p1 %d %s" % (draw(st.sampled_from(USER_SIGS)), draw(PRIOS)), "stop p1 3", "setprio p1 %s" % draw(PRIOS),
            "ccancel C0 p1", "cremove C0 p1", "csignal C0", "ctrset 0 1", "resume p1 %d" % draw(st.sampled_from([0, 5])),
            "stop p0 2", "ucancel 0", "kcancel K0 0", "interrupt p0 9 0"]
    if kind == "wait_ev":
        # the awaited event itself acts on its waiters
        for o in draw(st.sampled_from([["stop p1 6"], ["stop p1 6", "start p1"], ["stop p1 6", "start p1"],
                                       ["interrupt p1 -2 %s" % draw(PRIOS)],
                                       ["ftimers_clear p1"], ["setprio p1 %s" % draw(PRIOS)], ["stop p0 1"]])):
            L.append("action 0 " + o)
    # somebody else handling the waiter's timers (documented: "pp: usually the calling process itself")
    acts += ["ftimers_clear p1", "ftimer_add p1 %s %d" % (fhex(draw(st.sampled_from([0.0, 0.0, 1.0]))), draw(st.sampled_from(TIMER_SIGS))),
             "ftimer_cancel p1 %d" % draw(st.integers(0, 1))]
    for g in observed:
        acts += ["cunsub C0 %s" % g, "csub C0 %s" % g]
    if nwait > 1:
        acts += ["interrupt p2 -2 %s" % draw(PRIOS), "ccancel C0 p2", "stop p2 1", "setprio p2 %s" % draw(PRIOS),
                 "ftimers_clear p2"]
    # competitors for the same thing arriving at d: blocking calls, so only as processes
    rivals = {"acquire": ["preempt R0", "acquire R0"], "pacq": ["ppre P0 %d" % draw(st.integers(1, 2)), "pacq P0 1"],
              "ptopup": ["ppre P0 %d" % draw(st.integers(2, 4)), "ppre P0 %d" % draw(st.integers(1, 4)), "pacq P0 1"],
              "bget": ["bget B0 1"], "bput": ["bput B0 1"], "oget": ["oget Q0"], "oput": ["oput Q0 5"],
              "kget": ["kget K0"], "kput": ["kput K0 5 1"]}.get(kind, [])
    acts += rivals
    # an awaited or waiting process that is stopped and started again within the instant; a waiter whose
    # timers are cleared from outside before it is stopped / interrupted
    acts += ["start p0", "start p1"]
    combos = [["stop p0 2", "start p0"], ["stop p1 6", "start p1"], ["ftimers_clear p1", "stop p1 3"],
              ["ftimers_clear p1", "interrupt p1 -2 0"], ["ftimer_add p1 0x0p0 4", "stop p1 3"],
              ["setprio p1 %s" % draw(PRIOS), "interrupt p1 9 0"]]
    forced = kind == "wait_proc" and draw(st.booleans())
    if forced or draw(st.booleans()):
        # (for a wait on a process: often the awaited one is ended and started again within the instant)
        co = combos[0] if forced else draw(st.sampled_from(combos))
        at = d if (d == 0.0 or draw(st.booleans())) else d - 0.5
        L.append("proc p%d prio %s start 0 sprio 0" % (nproc, draw(st.sampled_from([9, 9, 3, 0, "max"]))))
        L.append("op hold %s" % fhex(at))
        for o in co:
            L.append("op " + o)
        nproc += 1
    for _ in range(draw(st.integers(1, 4))):
        a = draw(st.sampled_from(acts))
        # mostly exactly at d; sometimes earlier, so that what happens at d meets the state it left behind
        at = d if (d == 0.0 or draw(st.integers(0, 3)) > 0) else d - 0.5
        if a not in rivals and draw(st.booleans()):
            L.append("at %s %s %s" % (fhex(at), draw(PRIOS), a))
        else:
            L.append("proc p%d prio %s start 0 sprio 0" % (nproc, draw(PRIOS)))
            L.append("op hold %s" % fhex(at))
            L.append("op " + a)
            if draw(st.booleans()):
                L.append("op " + draw(st.sampled_from(acts)))
            if a in rivals:
                L.append("op hold 0x1p0")
            nproc += 1
    return "\n".join(L) + "\n"


@st.composite
def crowd(draw):
    """Several waiters of one kind on one object and a feeder that, in ONE slice, performs a burst of
    operations each of which can serve a waiter (releases, puts, gets, cancels of different handles),
    optionally while some of the waiters leave by timeout / interrupt in that same instant."""
    kind = draw(st.sampled_from(["res", "pool", "bget", "bput", "oget", "oput", "kget", "kput", "kput", "cond", "cond"]))
    n = draw(st.integers(2, 5))
    t1 = draw(st.sampled_from([0.5, 1.0, 1.0]))
    cap = draw(st.integers(1, 4))
    L = ["mode sim", "start 0"]
    if kind == "cond":
        # waiters with different thresholds, priorities and arrival instants (a later, higher-priority,
        # unsatisfied arrival reshuffles the waiting list); the feeder raises the counter and signals
        t1 = 4.0
        L += ["res R0", "cond C0", "observe C0 R0"]
        L.append("proc p0 prio %s start 0 sprio 0" % draw(st.sampled_from([3, 0, -1])))
        L.append("op acquire R0")
        L.append("op hold %s" % fhex(t1))
        for _ in range(draw(st.integers(1, 3))):
            L.append("op ctrset 0 %d" % draw(st.integers(0, 3)))
            L.append(draw(st.sampled_from(["op csignal C0", "op csignal C0", "op release R0", "op hold 0x0p0"])))
        L.append("op hold 0x1p0")
        for w in range(1, n + 1):
            L.append("proc p%d prio %s start %s sprio 0" % (w, draw(st.sampled_from([0, 0, 0, 1, 5, -1])),
                                                            fhex(draw(st.sampled_from([0.0, 0.5, 1.0, 2.0, 3.0])))))
            if draw(st.integers(0, 5)) == 0:
                L.append("op timer_add %s -5" % fhex(draw(st.sampled_from([1.0, 2.0, 4.0]))))
            L.append("op cwait C0 %s" % draw(st.sampled_from(["ctr 0 1", "ctr 0 1", "ctr 0 2", "ctr 0 3", "resfree R0 0", "false 0 0"])))
            L.append(draw(st.sampled_from(["op hold 0x0p0", "op return 2"])))
        for _ in range(draw(st.integers(0, 2))):
            L.append("at %s %s setprio p%d %s" % (fhex(draw(st.sampled_from([1.0, 3.0, 4.0]))), draw(PRIOS),
                                                  draw(st.integers(1, n)), draw(st.sampled_from([0, 1, 5]))))
        return "\n".join(L) + "\n"
    L += {"res": ["res R0"], "pool": ["pool P0 %d" % cap], "bget": ["buf B0 %d" % cap], "bput": ["buf B0 %d" % cap],
          "oget": ["oq Q0 %d" % cap], "oput": ["oq Q0 %d" % cap], "kget": ["pq K0 %d" % cap], "kput": ["pq K0 %d" % cap]}[kind]
    # the feeder first makes the object unavailable, waits until t1, then serves in a burst
    L.append("proc p0 prio %s start 0 sprio 0" % draw(st.sampled_from([3, 0, -1])))
    pre = {"res": ["acquire R0"], "pool": ["pacq P0 %d" % cap], "bput": ["bput B0 %d" % cap],
           "oput": ["oput Q0 %d" % (i + 1) for i in range(cap)], "kput": ["kput K0 %d %d" % (i + 1, i % 2) for i in range(cap)]}
    for o in pre.get(kind, []):
        L.append("op " + o)
    L.append("op hold %s" % fhex(t1))
    burst = []
    k = draw(st.integers(1, 4))
    if kind == "res":
        burst = ["release R0"]
    elif kind == "pool":
        left = cap
        for _ in range(k):
            if left > 0:
                a = draw(st.integers(1, left))
                burst.append("prel P0 %d" % a)
                left -= a
    elif kind == "bget":
        burst = ["bput B0 %d" % draw(st.integers(1, cap)) for _ in range(k)]
    elif kind == "bput":
        burst = ["bget B0 %d" % draw(st.integers(1, cap)) for _ in range(k)]
    elif kind == "oget":
        burst = ["oput Q0 %d" % (10 + i) for i in range(min(k, cap))]
    elif kind == "oput":
        burst = ["oget Q0" for _ in range(min(k, cap))]
    elif kind == "kget":
        burst = ["kput K0 %d %s" % (10 + i, draw(st.sampled_from([0, 1, -1]))) for i in range(min(k, cap))]
    else:
        refs = draw(st.permutations(list(range(cap))))
        for i in range(min(k, cap)):
            burst.append(draw(st.sampled_from(["kcancel K0 %d" % refs[i], "kcancel K0 %d" % refs[i], "kget K0"])))
    for o in burst:
        L.append("op " + o)
    L.append(draw(st.sampled_from(["op hold 0x1p1", "op return 1", "op hold 0x0p0"])))
    wop = {"res": "acquire R0", "pool": None, "bget": None, "bput": None, "oget": "oget Q0", "oput": "oput Q0 9",
           "kget": "kget K0", "kput": "kput K0 9 0"}[kind]
    for w in range(1, n + 1):
        L.append("proc p%d prio %s start %s sprio 0" % (w, draw(st.sampled_from([0, 0, 1, -1])),
                                                        fhex(draw(st.sampled_from([0.0, 0.0, 0.5])))))
        if draw(st.integers(0, 3)) == 0:
            L.append("op timer_add %s -5" % fhex(draw(st.sampled_from([t1, t1, 2.0]))))
        if kind == "pool":
            L.append("op pacq P0 %d" % draw(st.integers(1, cap)))
        elif kind in ("bget", "bput"):
            L.append("op %s B0 %d" % (kind, draw(st.integers(1, cap + 1))))
        else:
            L.append("op " + wop)
        L.append(draw(st.sampled_from(["op hold 0x0p0", "op hold 0x1p0", "op return 2"])))
    for _ in range(draw(st.integers(0, 2))):
        cmd = draw(st.sampled_from(["interrupt", "interrupt", "stop", "setprio"]))
        arg = {"interrupt": "-2 %s" % draw(PRIOS), "stop": "3", "setprio": str(draw(st.sampled_from([2, -2, 0])))}[cmd]
        L.append("at %s %s %s p%d %s" % (fhex(t1), draw(PRIOS), cmd, draw(st.integers(1, n)), arg))
    return "\n".join(L) + "\n"


@st.composite
def churn(draw):
    """Arrivals and departures of equal-priority waiters interleaved within ONE simulated instant.

    A holder keeps a resource / pool / empty queue unavailable; at instant T several processes start
    waiting (their start events carry generated priorities, so their order within the instant varies)
    while dispatcher commands of generated priorities interrupt or stop some of those already waiting.
    Afterwards the object is handed from waiter to waiter, one per instant, so that the order in which
    the survivors are served is observable.
    """
    kind = draw(st.sampled_from(["res", "res", "pool", "oget"]))
    T = 1.0
    n = draw(st.integers(3, 7))
    L = ["mode sim", "start 0"]
    small = st.sampled_from([-3, -2, -1, 0, 1, 2, 3])
    if kind == "res":
        L += ["res R0", "proc p0 prio 0 start 0 sprio 9", "op acquire R0", "op hold %s" % fhex(T + 1.0), "op release R0"]
        wscript = ["acquire R0", "hold 0x1p0", "release R0"]
    elif kind == "pool":
        cap = draw(st.integers(1, 2))
        L += ["pool P0 %d" % cap, "proc p0 prio 0 start 0 sprio 9", "op pacq P0 %d" % cap, "op hold %s" % fhex(T + 1.0),
              "op prel P0 %d" % cap]
        wscript = ["pacq P0 1", "hold 0x1p0", "prel P0 1"]
    else:
        L += ["oq Q0 unlimited", "proc p0 prio 0 start 0 sprio 9", "op hold %s" % fhex(T + 1.0)]
        for i in range(n):
            L += ["op oput Q0 %d" % (i + 1), "op hold 0x1p0"]
        wscript = ["oget Q0"]
    for w in range(1, n + 1):
        prio = draw(st.sampled_from([0, 0, 0, 0, 1]))
        start = draw(st.sampled_from([T, T, T, 0.5, 0.0]))
        L.append("proc p%d prio %d start %s sprio %d" % (w, prio, fhex(start), draw(small)))
        if draw(st.integers(0, 6)) == 0:
            L.append("op timer_add %s -5" % fhex(draw(st.sampled_from([T - start, T + 1.0 - start, 3.0]))))
        for o in wscript:
            L.append("op " + o)
    for _ in range(draw(st.integers(1, 4))):
        tgt = draw(st.integers(1, n))
        if draw(st.integers(0, 3)) == 0:
            L.append("at %s %d stop p%d 1" % (fhex(T), draw(small), tgt))
        else:
            L.append("at %s %d interrupt p%d -2 %d" % (fhex(T), draw(small), tgt, draw(st.sampled_from([9, 9, 0, -9]))))
    return "\n".join(L) + "\n"


@st.composite
def deep(draw):
    """Populations of 6-14 in ONE container, where the shape of the underlying heap array matters
    (entries in different subtrees, parents and children satisfied together, position queries on
    deep entries): a priority queue filled by one producer and queried / reprioritised / cancelled by
    handle; a condition with many waiters of different priorities of which some become satisfied at
    each signal; a resource or pool with many waiters served one at a time while priorities change."""
    kind = draw(st.sampled_from(["pq", "pqwalk", "pqwalk", "cond", "cond", "guard"]))
    n = draw(st.integers(6, 14))
    if kind == "pqwalk":
        # a long random walk over one priority queue: puts, reprioritisations (mostly small changes), gets,
        # cancels and position queries interleaved, so that misplaced entries are not repaired at once
        steps = draw(st.integers(40, 120))
        L = ["mode sim", "start 0", "pq K0 unlimited", "proc p0 prio 0 start 0 sprio 0"]
        nput = 0
        for i in range(steps):
            r = draw(st.integers(0, 19))
            if nput < 3 or r < 7:
                L.append("op kput K0 %d %d" % (nput + 1, draw(st.integers(0, 9)) * 10))
                nput += 1
            elif r < 13:
                L.append("op kreprio K0 %d %d" % (draw(st.integers(max(0, nput - 12), nput - 1)), draw(st.integers(0, 99))))
            elif r < 17:
                L.append("op kget K0")
            elif r < 18:
                L.append("op kcancel K0 %d" % draw(st.integers(max(0, nput - 12), nput - 1)))
            else:
                L.append("op kpos K0 %d" % draw(st.integers(max(0, nput - 12), nput - 1)))
        for i in range(nput):
            L.append("op kget K0")
        return "\n".join(L) + "\n"
    prio = st.integers(-3, 9)
    L = ["mode sim", "start 0"]
    if kind == "pq":
        L += ["pq K0 %s" % draw(st.sampled_from(["unlimited", str(n), str(n + 3)]))]
        L.append("proc p0 prio 0 start 0 sprio 0")
        for i in range(n):
            L.append("op kput K0 %d %d" % (i + 1, draw(prio)))
            if draw(st.integers(0, 5)) == 0:
                L.append("op kpos K0 %d" % draw(st.integers(0, i)))
        for _ in range(draw(st.integers(0, 8))):
            L.append("op " + draw(st.sampled_from(["kreprio K0 %d %d" % (draw(st.integers(0, n - 1)), draw(prio)),
                                                   "kreprio K0 %d %d" % (draw(st.integers(0, n - 1)), draw(prio)),
                                                   "kreprio K0 %d %d" % (draw(st.integers(0, n - 1)), draw(prio)),
                                                   "kcancel K0 %d" % draw(st.integers(0, n - 1)), "kget K0",
                                                   "kput K0 %d %d" % (50 + draw(st.integers(0, 9)), draw(prio))])))
        for i in draw(st.permutations(list(range(n)))):
            L.append("op kpos K0 %d" % i)
        L.append("op hold 0x1p0")
        for i in range(n):
            L.append("op kget K0")
        if draw(st.booleans()):
            # a consumer that takes some of them first
            L.append("proc p1 prio 0 start %s sprio 0" % fhex(draw(st.sampled_from([0.0, 0.5]))))
            for _ in range(draw(st.integers(1, 4))):
                L.append("op kget K0")
    elif kind == "cond":
        obs = draw(st.booleans())
        L += ["res R0", "cond C0"] + (["observe C0 R0"] if obs else [])
        L.append("proc p0 prio %d start 0 sprio 5" % draw(prio))
        L.append("op acquire R0")
        L.append("op hold 0x1p2")
        for step in range(1, 4):
            L.append("op ctrset 0 %d" % step)
            if draw(st.booleans()):
                L.append("op ctrset 1 %d" % draw(st.integers(0, 1)))
            L.append("op " + (draw(st.sampled_from(["csignal C0", "release R0"])) if obs else "csignal C0"))
            if obs:
                L.append("op acquire R0")
            L.append("op hold 0x1p0")
        L.append("op ctrset 0 9")
        L.append("op ctrset 1 9")
        L.append("op csignal C0")
        for w in range(1, n + 1):
            L.append("proc p%d prio %d start %s sprio 0" % (w, draw(prio), fhex(draw(st.sampled_from([0.0, 0.0, 0.5, 1.0, 2.0, 3.0])))))
            L.append("op cwait C0 %s" % draw(st.sampled_from(["ctr 0 1", "ctr 0 2", "ctr 0 2", "ctr 0 3", "ctr 0 3", "ctr 1 1",
                                                              "ctr 0 9"])))
            L.append(draw(st.sampled_from(["op hold 0x0p0", "op return 2", "op cwait C0 ctr 0 9"])))
        for _ in range(draw(st.integers(0, 2))):
            L.append("at %s %d setprio p%d %d" % (fhex(draw(st.sampled_from([1.0, 3.0, 4.5]))), draw(prio),
                                                  draw(st.integers(1, n)), draw(prio)))
    else:
        pool = draw(st.booleans())
        L += ["pool P0 2"] if pool else ["res R0"]
        L.append("proc p0 prio 9 start 0 sprio 9")
        L.append("op pacq P0 2" if pool else "op acquire R0")
        L.append("op hold 0x1p2")
        L.append("op prel P0 2" if pool else "op release R0")
        for w in range(1, n + 1):
            L.append("proc p%d prio %d start %s sprio %d" % (w, draw(st.sampled_from([0, 0, 1, 2])),
                                                             fhex(draw(st.sampled_from([0.0, 0.5, 1.0, 1.0, 2.0, 3.0]))), draw(st.integers(-2, 2))))
            L.append("op pacq P0 1" if pool else "op acquire R0")
            L.append("op hold 0x1p0")
            L.append("op prel P0 1" if pool else "op release R0")
        for _ in range(draw(st.integers(1, 4))):
            L.append("at %s %d setprio p%d %d" % (fhex(draw(st.sampled_from([1.0, 2.5, 3.0, 3.5]))), draw(st.integers(-2, 2)),
                                                  draw(st.integers(1, n)), draw(st.sampled_from([0, 1, 2, 2]))))
    return "\n".join(L) + "\n"
