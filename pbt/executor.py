"""Client side of the cimx zygote: send a case, get (trace lines, end record)."""
import os
import subprocess

ENV_EXTRA = {
    "ASAN_OPTIONS": "detect_leaks=0:exitcode=97:allocator_may_return_null=1:"
                    "detect_stack_use_after_return=0:symbolize=1:print_summary=1",
    "UBSAN_OPTIONS": "print_stacktrace=1:exitcode=98:halt_on_error=1:symbolize=1",
    "ASAN_SYMBOLIZER_PATH": "/usr/bin/llvm-symbolizer-14",
}


class Result(object):
    __slots__ = ("lines", "stderr", "kind", "code", "raw")

    def __init__(self, raw):
        self.raw = raw
        self.lines = []
        self.stderr = []
        self.kind, self.code = "exit", -1
        for ln in raw.split("\n"):
            if not ln:
                continue
            c = ln[0]
            if c == "!":
                self.stderr.append(ln[2:])
            elif c == "E" and ln.startswith("E "):
                parts = ln.split()
                self.kind, self.code = parts[1], int(parts[2])
            else:
                self.lines.append(ln)

    # -- classification of how the child ended ---------------------------
    @property
    def completed(self):
        return self.kind == "exit" and self.code == 0

    @property
    def oracle_failed(self):
        return self.kind == "exit" and self.code == 10

    @property
    def parse_error(self):
        return self.kind == "exit" and self.code == 11

    @property
    def timed_out(self):
        return self.kind == "timeout"

    @property
    def crashed(self):
        """sanitizer report, signal, library assert (abort) or unexpected exit"""
        return not (self.completed or self.oracle_failed or self.parse_error or self.timed_out)

    def fail_lines(self):
        return [ln[2:] for ln in self.lines if ln.startswith("F ")]

    def crash_signature(self):
        """(kind, site) - the error kind and the first library frame / assert site."""
        import re
        kind = "%s:%d" % (self.kind, self.code)
        site = "?"
        txt = self.stderr
        for ln in txt:
            m = re.search(r'(\w+) \((\d+)\):\s+Fatal: Assert "(.*)" failed, source file (\S+?),', ln)
            if m:
                # library assertion: function, condition, file (line numbers and seeds left out)
                return "assert", "%s:%s:%s" % (m.group(4), m.group(1), m.group(3))
            if "runtime error:" in ln:
                k = ln.split("runtime error:")[1].strip()
                k = re.sub(r"0x[0-9a-f]+", "ADDR", k)
                loc = ln.split(": runtime error")[0].split("/")[-1]
                loc = ":".join(loc.split(":")[:1])
                return "ubsan:" + k[:70], loc
            if "ERROR: AddressSanitizer" in ln:
                kind = "asan:" + ln.split("AddressSanitizer:")[1].split()[0]
                break
        for ln in txt:
            s = ln.strip()
            if s.startswith("#") and " in " in s:
                fn = s.split(" in ", 1)[1].split()[0]
                if fn.startswith(("cmb_", "cmi_", "cimba_")) or "/repo/" in s:
                    if fn.startswith(("cmi_assert_failed", "cmi_memcpy", "cmi_memset", "cmi_malloc",
                                      "cmi_logger_fatal")):
                        continue
                    site = fn
                    break
        return kind, site


class Executor(object):
    def __init__(self, build_dir, extra_env=None):
        self.path = os.path.join(build_dir, "cimx")
        env = dict(os.environ)
        env.update(ENV_EXTRA)
        if extra_env:
            env.update(extra_env)
        self.env = env
        self.proc = None
        self._start()

    def _start(self):
        self.proc = subprocess.Popen([self.path, "serve"], stdin=subprocess.PIPE,
                                     stdout=subprocess.PIPE, env=self.env, bufsize=0)

    def run(self, text):
        data = text.encode()
        try:
            self.proc.stdin.write(b"%d\n" % len(data) + data)
            self.proc.stdin.flush()
            hdr = b""
            while not hdr.endswith(b"\n"):
                c = self.proc.stdout.read(1)
                if not c:
                    raise IOError("cimx zygote died")
                hdr += c
            n = int(hdr)
            buf = bytearray()
            while len(buf) < n:
                chunk = self.proc.stdout.read(n - len(buf))
                if not chunk:
                    raise IOError("cimx zygote died")
                buf += chunk
        except (IOError, OSError, ValueError):
            self.close()
            self._start()
            raise
        return Result(buf.decode(errors="replace"))

    def close(self):
        try:
            self.proc.stdin.close()
            self.proc.kill()
            self.proc.wait()
        except Exception:
            pass

    def __del__(self):
        self.close()


def run_file(build_dir, path, extra_env=None):
    env = dict(os.environ)
    env.update(ENV_EXTRA)
    if extra_env:
        env.update(extra_env)
    r = subprocess.run([os.path.join(build_dir, "cimx"), "run", path],
                       stdout=subprocess.PIPE, env=env)
    return Result(r.stdout.decode(errors="replace"))
