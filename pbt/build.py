"""Build libcimba + the cimx executor from /repo's *current working tree*.

The build directory is keyed by a SHA-256 over every input (repo sources,
harness sources, flag set), lives in /verif/build/<variant>-<hash>/ and is
taken under flock; a changed tree always rebuilds, an unchanged tree reuses the
cache.  Old hashes of the same variant are pruned (keep 2).
"""
import fcntl
import hashlib
import os
import shutil
import subprocess
import sys
from concurrent.futures import ThreadPoolExecutor

VERIF = os.path.dirname(os.path.dirname(os.path.abspath(__file__)))
REPO = os.environ.get("VERIF_REPO", "/repo")
BUILD_ROOT = os.environ.get("VERIF_BUILD_ROOT", os.path.join(VERIF, "build"))
HARNESS = os.path.join(VERIF, "harness")

COMMON = ["-std=c17", "-D_POSIX_C_SOURCE=200809L", "-DNDEBUG", "-DCIMBA_VERIF",
          "-Wno-pedantic", "-fno-omit-frame-pointer"]
SAN = ["-fsanitize=address,undefined", "-fno-sanitize-recover=undefined"]

VARIANTS = {
    # default: memory errors and UB visible, shipped assertion level (NDEBUG)
    "asan": dict(cc="clang", cflags=["-O1", "-g"] + SAN, ldflags=SAN),
    # the project's own release flags (no LTO: irrelevant to behaviour here)
    "rel": dict(cc="gcc", cflags=["-O3", "-g", "-fno-semantic-interposition",
                                  "-ftls-model=initial-exec"], ldflags=[]),
    # the shipped optimisation level without the frame pointer the other variants keep
    # (-fno-omit-frame-pointer in COMMON): rbp is an ordinary callee-saved register for gcc here
    "ship": dict(cc="gcc", cflags=["-O3", "-g", "-fno-semantic-interposition",
                                   "-ftls-model=initial-exec", "-fomit-frame-pointer"], ldflags=[]),
    # libFuzzer objects
    "fuzz": dict(cc="clang", cflags=["-O1", "-g", "-fsanitize=fuzzer-no-link"] + SAN,
                 ldflags=SAN),
    # measurement aid only (tools/coverage.py, VERIF_COV=1): gcov line/function coverage of the library
    "cov": dict(cc="gcc", cflags=["-O0", "-g", "--coverage", "-DCIMX_COV"], ldflags=["--coverage"]),
    # triage aid only: debug asserts on (never part of a verdict)
    "dbg": dict(cc="clang", cflags=["-O1", "-g", "-UNDEBUG"] + SAN, ldflags=SAN),
}


def _repo_files():
    out = []
    for sub in ("src", "include", "codegen"):
        for root, _dirs, files in os.walk(os.path.join(REPO, sub)):
            if "windows" in root:
                continue
            for f in sorted(files):
                if f.endswith((".c", ".h", ".asm", ".inc")):
                    out.append(os.path.join(root, f))
    return sorted(out)


def _harness_files():
    out = []
    for f in sorted(os.listdir(HARNESS)):
        if f.endswith((".c", ".h", ".asm")):
            out.append(os.path.join(HARNESS, f))
    return out


def tree_hash(variant):
    h = hashlib.sha256()
    v = VARIANTS[variant]
    h.update(repr((variant, v, COMMON)).encode())
    for p in _repo_files() + _harness_files():
        h.update(p.encode())
        with open(p, "rb") as fh:
            h.update(hashlib.sha256(fh.read()).digest())
    return h.hexdigest()[:16]


def _run(cmd, **kw):
    r = subprocess.run(cmd, stdout=subprocess.PIPE, stderr=subprocess.STDOUT, **kw)
    if r.returncode != 0:
        sys.stderr.write("BUILD FAILED: %s\n%s\n" % (" ".join(cmd), r.stdout.decode(errors="replace")))
        raise SystemExit(2)
    return r.stdout


def build(variant="asan", quiet=True):
    """Returns the build directory (containing libcimba.a, cimx, and fuzzers)."""
    os.makedirs(BUILD_ROOT, exist_ok=True)
    if os.environ.get("VERIF_COV") and variant != "fuzz":
        variant = "cov"
    hsh = tree_hash(variant)
    bdir = os.path.join(BUILD_ROOT, "%s-%s" % (variant, hsh))
    lock = open(os.path.join(BUILD_ROOT, ".lock-%s" % variant), "w")
    fcntl.flock(lock, fcntl.LOCK_EX)
    try:
        if os.path.exists(os.path.join(bdir, ".done")):
            os.utime(bdir, None)
            return bdir
        for attempt in (1, 2):
            if os.path.exists(bdir):
                shutil.rmtree(bdir)
            os.makedirs(bdir)
            try:
                _do_build(variant, bdir)
                break
            except SystemExit:
                # one retry: a transient failure of a tool (seen once in ~300 builds) must not count as a verdict
                if attempt == 2:
                    raise
                sys.stderr.write("build of %s failed, trying once more\n" % variant)
        open(os.path.join(bdir, ".done"), "w").write(hsh)
        _prune(variant, keep=bdir)
        return bdir
    finally:
        fcntl.flock(lock, fcntl.LOCK_UN)
        lock.close()


def _prune(variant, keep):
    ds = [os.path.join(BUILD_ROOT, d) for d in os.listdir(BUILD_ROOT)
          if d.startswith(variant + "-")]
    ds = sorted(ds, key=lambda d: os.path.getmtime(d), reverse=True)
    for d in ds[2:]:
        if d != keep:
            shutil.rmtree(d, ignore_errors=True)


def _do_build(variant, bdir):
    v = VARIANTS[variant]
    cc = v["cc"]
    inc = os.path.join(bdir, "inc")
    obj = os.path.join(bdir, "obj")
    os.makedirs(inc)
    os.makedirs(obj)
    # 1. generated ziggurat tables (exactly what meson's custom_target does)
    for name, src in (("cmi_random_exp_zig.inc", "calc_exponential.c"),
                      ("cmi_random_nor_zig.inc", "calc_normal.c")):
        exe = os.path.join(bdir, src[:-2])
        _run(["gcc", "-O2", "-o", exe, os.path.join(REPO, "codegen", src),
              os.path.join(REPO, "codegen", "calc_utils.c"), "-lm"])
        out = _run([exe])
        with open(os.path.join(inc, name), "wb") as fh:
            fh.write(out)
    port = os.path.join(REPO, "src", "port", "x86-64", "linux")
    incs = ["-I" + os.path.join(REPO, "include"), "-I" + os.path.join(REPO, "src"), "-I" + inc]
    jobs = []
    objs = []
    for f in sorted(os.listdir(port)):
        if f.endswith(".asm"):
            o = os.path.join(obj, f[:-4] + "_asm.o")
            jobs.append(["nasm", "-f", "elf64", os.path.join(port, f), "-o", o])
            objs.append(o)
    srcs = [os.path.join(REPO, "src", f) for f in sorted(os.listdir(os.path.join(REPO, "src")))
            if f.endswith(".c")]
    srcs += [os.path.join(port, f) for f in sorted(os.listdir(port)) if f.endswith(".c")]
    for s in srcs:
        o = os.path.join(obj, os.path.basename(s)[:-2] + ".o")
        jobs.append([cc] + COMMON + v["cflags"] + incs + ["-c", s, "-o", o])
        objs.append(o)
    # 2. harness
    hobjs = []
    fuzz_objs = {}
    hflags = [f for f in COMMON if f != "-std=c17"] + ["-std=gnu17", "-D_GNU_SOURCE"] + v["cflags"]
    for s in _harness_files():
        b = os.path.basename(s)
        if b.endswith(".asm"):
            o = os.path.join(obj, "h_" + b[:-4] + "_asm.o")
            jobs.append(["nasm", "-f", "elf64", s, "-o", o])
            hobjs.append(o)
        elif b.endswith(".c"):
            o = os.path.join(obj, "h_" + b[:-2] + ".o")
            jobs.append([cc] + hflags + incs + ["-I" + HARNESS, "-c", s, "-o", o])
            if b.startswith("fuzz_"):
                fuzz_objs[b[:-2]] = o
            elif b == "cimx_main.c":
                main_obj = o
            else:
                hobjs.append(o)
    with ThreadPoolExecutor(max_workers=16) as ex:
        list(ex.map(_run, jobs))
    lib = os.path.join(bdir, "libcimba.a")
    _run(["ar", "rcs", lib] + objs)
    libs = [lib, "-lm", "-lpthread"]
    if variant == "fuzz":
        for name, o in fuzz_objs.items():
            _run([cc, "-fsanitize=fuzzer"] + v["ldflags"] + ["-o", os.path.join(bdir, name), o] + hobjs + libs)
    else:
        _run([cc] + v["ldflags"] + ["-o", os.path.join(bdir, "cimx"), main_obj] + hobjs + libs)


if __name__ == "__main__":
    for var in (sys.argv[1:] or ["asan"]):
        print(build(var))
