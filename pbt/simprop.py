"""Shared plumbing for the properties decided on simulation scenarios."""
from hypothesis import strategies as st

from . import simgen, simtrace
from .common import crash_outcome
from .runner import Outcome


RULE_SUFFIX = (" About a quarter of the cases come from two constructed generators shared by all simulation properties: "
               "'coincide' (1-2 waiters whose timeout expires at instant d while 1-4 actors grant / cancel / signal / "
               "interrupt / stop / resume / reprioritise / end the awaited thing at exactly d) and 'crowd' (2-5 waiters of one "
               "kind and a feeder that serves them with a burst of releases / puts / gets / cancels in one slice) and 'churn' "
               "(equal-priority waiters arriving and being interrupted / stopped within one instant, then served one per instant) and "
               "'deep' (6-14 entries in one priority queue / condition / waiting list, queried, reprioritised and served where the "
               "shape of the heap array matters); user events may carry an action that stops / restarts / interrupts their own "
               "waiters, timers may be added / cancelled / cleared by another process, conditions unsubscribe and resubscribe; the "
               "thorough tier adds bigger scenarios (up to 20 processes, scripts up to 40 ops).")


def strategy_for(profiles, tier="quick"):
    """profiles: list of (weight, profile name); the thorough tier mixes in bigger scenarios"""
    opts = []
    for w, name in profiles:
        opts += [simgen.scenario(name)] * (2 * w)
        if tier == "thorough":
            opts += [simgen.scenario(name, big=True)] * w
    # constructed coincidences (several causes for one process on one instant; a burst of enabling
    # operations for a crowd of waiters): about a quarter of all cases
    k = max(1, len(opts) // 6)
    constructed = [simgen.coincide()] * k + [simgen.crowd()] * k + [simgen.churn()] * max(1, k // 2) \
        + [simgen.deep()] * max(1, k // 2)
    if any(name == "recording" for _w, name in profiles):
        # the constructed scenarios declare no recording of their own: switch it on for every object
        constructed = [g.map(_record_all) for g in constructed]
    opts += constructed
    return trusting(st.one_of(*opts))


def _record_all(text):
    out = []
    names = []
    for ln in text.split("\n"):
        w = ln.split()
        if w and w[0] in ("res", "pool", "buf", "oq", "pq"):
            names.append(w[1])
        if w and w[0] == "proc" and names:
            out += ["record %s" % n for n in names]
            names = []
        out.append(ln)
    return "\n".join(out)


def trusting(base):
    """Half of the scenarios run with `trusting 1`: processes release what they were told they hold
    (SUCCESS, and no PREEMPTED since) without first asking the library - what a user program does."""
    return st.tuples(base, st.booleans()).map(
        lambda t: t[0].replace("start 0\n", "start 0\ntrusting 1\n", 1) if t[1] else t[0])


def evaluate_family(text, ctx, family, nontrivial, variant="asan"):
    res = ctx.run(text, variant)
    if res.parse_error:
        raise RuntimeError("generator produced an unparsable scenario:\n" + text + "\n" + "\n".join(res.lines[-3:]))
    if res.timed_out:
        import hashlib, os
        d = os.path.join(os.path.dirname(os.path.dirname(os.path.abspath(__file__))), "build", "timeouts")
        os.makedirs(d, exist_ok=True)
        with open(os.path.join(d, hashlib.sha1(text.encode()).hexdigest()[:12] + ".case"), "w") as fh:
            fh.write(text)
        return Outcome(ok=True, inconclusive=True, classes=["timeout"])
    if res.crashed:
        if family == "C10":
            return crash_outcome(res, "sim-crash")
        # The crash itself is C10's business. The history up to the last completed event is on record
        # (the interpreter flushes after every event) and is judged like any other history.
        keep = [ln for ln in res.lines if ln[:1] in "CRKXBZLPGTUSVHMQ"]
        while keep and not keep[-1].startswith("S "):
            keep.pop()          # drop the partial last event
        res.lines = keep
        try:
            a = simtrace.analyze(text, res)
        except RuntimeError:
            return Outcome(ok=True, classes=["crashed(judged-by-C10)", "partial-trace-unreadable"])
        v = a.first(family)
        if v is not None:
            detail = "\n".join(["%s %s: %s" % x for x in a.violations[:12]] + ["--- the run later crashed; trace tail ---"]
                               + res.lines[-60:])
            return Outcome(ok=False, sig=v[1], msg=v[2] + " (before the run crashed later on)", detail=detail,
                           classes=sorted(a.classes) + ["crashed(judged-by-C10)"])
        if variant == "asan" and "rel" in getattr(ctx, "build_dirs", {}) \
                and any("runtime error:" in ln for ln in res.stderr):
            # An UndefinedBehaviorSanitizer report stopped the instrumented run (e.g. a signed overflow in a
            # comparison) before the history could show what the shipped library does with it. The report is
            # C10's business; what this property asks is decided on the shipped configuration (gcc -O3, no
            # sanitizer), whose complete history is judged by the same oracle.
            o = evaluate_family(text, ctx, family, nontrivial, variant="rel")
            o.classes = list(o.classes or []) + ["ubsan-stop(rejudged-on-rel)"]
            return o
        return Outcome(ok=True, classes=["crashed(judged-by-C10)"])
    if family == "C10" and len(res.lines) > 20000:
        # tag-pool boundary sweeps: tens of thousands of trivial records, only the exit status matters here
        return Outcome(ok=True, nontrivial=True, classes=["tag-pool-boundary-sweep"])
    a = simtrace.analyze(text, res)
    classes = sorted(a.classes)
    if a.incomplete:
        classes.append("incomplete-trace")
    if a.stats.get("ops") and a.stats.get("skips", 0) * 5 > a.stats["ops"]:
        classes.append("skipped>20%")
    if family == "C10":
        return Outcome(ok=True, nontrivial=bool(a.classes & nontrivial), classes=classes)
    v = a.first(family)
    if v is not None:
        others = [x for x in a.violations if x[0] != family]
        detail = "\n".join(["%s %s: %s" % x for x in a.violations[:12]] + ["--- trace tail ---"] + res.lines[-60:])
        del others
        return Outcome(ok=False, sig=v[1], msg=v[2], detail=detail, classes=classes)
    return Outcome(ok=True, nontrivial=bool(a.classes & nontrivial), classes=classes)
