"""Shared plumbing for the properties decided on simulation scenarios."""
from hypothesis import strategies as st

from . import simgen, simtrace
from .common import crash_outcome
from .runner import Outcome


def strategy_for(profiles, tier="quick"):
    """profiles: list of (weight, profile name); the thorough tier mixes in bigger scenarios"""
    opts = []
    for w, name in profiles:
        opts += [simgen.scenario(name)] * (2 * w)
        if tier == "thorough":
            opts += [simgen.scenario(name, big=True)] * w
    return st.one_of(*opts)


def evaluate_family(text, ctx, family, nontrivial, variant="asan"):
    res = ctx.run(text, variant)
    if res.parse_error:
        raise RuntimeError("generator produced an unparsable scenario:\n" + text + "\n" + "\n".join(res.lines[-3:]))
    if res.timed_out:
        import hashlib, os
        d = os.path.join(os.path.dirname(os.path.dirname(os.path.abspath(__file__))), "build", "timeouts")
        os.makedirs(d, exist_ok=True)
        with open(os.path.join(d, hashlib.sha1(text.encode()).hexdigest()[:12] + ".case"), "w") as fh:
            fh.write(text)
        return Outcome(ok=True, inconclusive=True, classes=["timeout"])
    if res.crashed:
        if family == "C10":
            return crash_outcome(res, "sim-crash")
        # a crash is C10's business; this property judges completed runs only
        return Outcome(ok=True, classes=["crashed(judged-by-C10)"])
    a = simtrace.analyze(text, res)
    classes = sorted(a.classes)
    if a.incomplete:
        classes.append("incomplete-trace")
    if a.stats.get("ops") and a.stats.get("skips", 0) * 5 > a.stats["ops"]:
        classes.append("skipped>20%")
    if family == "C10":
        return Outcome(ok=True, nontrivial=bool(a.classes & nontrivial), classes=classes)
    v = a.first(family)
    if v is not None:
        others = [x for x in a.violations if x[0] != family]
        detail = "\n".join(["%s %s: %s" % x for x in a.violations[:12]] + ["--- trace tail ---"] + res.lines[-60:])
        del others
        return Outcome(ok=False, sig=v[1], msg=v[2], detail=detail, classes=classes)
    return Outcome(ok=True, nontrivial=bool(a.classes & nontrivial), classes=classes)
