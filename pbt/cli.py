import argparse
import sys

from . import runner


def main(argv=None):
    ap = argparse.ArgumentParser(prog="check")
    ap.add_argument("what", help="property id (C01..C20) or 'replay'")
    ap.add_argument("rest", nargs="*")
    ap.add_argument("--tier", choices=["quick", "thorough"], default=None)
    a = ap.parse_args(argv)
    import os
    if a.what == "replay":
        if len(a.rest) != 2:
            ap.error("usage: check replay <id> <path>")
        return runner.run_replay(a.rest[0], a.rest[1])
    tier = a.tier or os.environ.get("VERIF_TIER") or "quick"
    return runner.run_check(a.what.upper(), tier)


if __name__ == "__main__":
    sys.exit(main())
