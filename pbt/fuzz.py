"""libFuzzer campaigns for the thorough tier (C01, C02, C20).

Each front end (harness/fuzz_*.c) decodes bytes into the same op structs as the
Hypothesis path and runs the same in-executor reference model; on an oracle
failure it writes the case in text form into FUZZ_CASE_DIR and traps. Only
crash-* artifacts count (slow-unit / timeout / oom are load noise). Every
failing case text is handed back to the runner, which re-runs it through cimx.
"""
import glob
import hashlib
import os
import re
import shutil
import subprocess
import time

from .executor import ENV_EXTRA


def campaign(build_dir, binary, seed, seconds, jobs=8, max_len=2048, seed_inputs=()):
    work = os.path.join(build_dir, "fuzzwork-" + binary)
    shutil.rmtree(work, ignore_errors=True)
    os.makedirs(os.path.join(work, "cases"))
    env = dict(os.environ)
    env.update(ENV_EXTRA)
    env["FUZZ_CASE_DIR"] = os.path.join(work, "cases")
    procs = []
    for j in range(jobs):
        corp = os.path.join(work, "corpus%d" % j)
        art = os.path.join(work, "art%d" % j) + os.sep
        os.makedirs(corp)
        os.makedirs(art)
        if j % 2 == 1:
            # every second job starts from a few valid seed inputs instead of an empty corpus
            for k, data in enumerate(seed_inputs):
                with open(os.path.join(corp, "seed%d" % k), "wb") as fh:
                    fh.write(data)
        log = open(os.path.join(work, "log%d.txt" % j), "wb")
        cmd = [os.path.join(build_dir, binary), "-max_total_time=%d" % seconds, "-max_len=%d" % max_len,
               "-seed=%d" % (seed * 131 + j + 1), "-print_final_stats=1", "-artifact_prefix=" + art,
               "-rss_limit_mb=3000", corp]
        procs.append((subprocess.Popen(cmd, stdout=log, stderr=subprocess.STDOUT, env=env), log))
    t0 = time.time()
    for p, log in procs:
        try:
            p.wait(timeout=max(30, seconds * 2 + 60 - (time.time() - t0)))
        except subprocess.TimeoutExpired:
            p.kill()
        log.close()
    execs = 0
    for j in range(jobs):
        with open(os.path.join(work, "log%d.txt" % j), "rb") as fh:
            m = re.findall(rb"stat::number_of_executed_units:\s+(\d+)", fh.read())
            if m:
                execs += int(m[-1])
    crashes = glob.glob(os.path.join(work, "art*", "crash-*"))
    failures = []
    seen = set()
    for cf in sorted(glob.glob(os.path.join(work, "cases", "*.case"))):
        with open(cf) as fh:
            text = fh.read()
        h = hashlib.sha1(text.encode()).hexdigest()
        if h not in seen:
            seen.add(h)
            failures.append(text)
    cov = {"libfuzzer_%s" % binary: dict(executions=execs, jobs=jobs, seconds=seconds, crash_artifacts=len(crashes),
                                         oracle_failure_cases=len(failures),
                                         note="even jobs start from an empty corpus, odd jobs from seed inputs")}
    # a crash without a case file (memory error inside the library) still counts: keep the raw artifact
    raw = []
    if crashes and not failures:
        for c in crashes[:3]:
            raw.append(c)
            dump = c + ".case"
            env2 = dict(env, FUZZ_DUMP=dump)
            subprocess.run([os.path.join(build_dir, binary), c], env=env2, stdout=subprocess.DEVNULL,
                           stderr=subprocess.DEVNULL)
            if os.path.exists(dump):
                with open(dump) as fh:
                    failures.append(fh.read())
    return execs, failures[:5], cov, raw
