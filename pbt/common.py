"""Helpers shared by property modules."""
import re

from .runner import Outcome


def fhex(x):
    """Exact text form of a double that strtod() reads back bit-identically."""
    if x != x:
        return "nan"
    if x == float("inf"):
        return "inf"
    if x == float("-inf"):
        return "-inf"
    return float(x).hex()


def parse_kv(line):
    """'N a=1 b=2' -> {'a': 1, 'b': 2}"""
    out = {}
    for tok in line.split()[1:]:
        if "=" in tok:
            k, v = tok.split("=", 1)
            try:
                out[k] = int(v)
            except ValueError:
                out[k] = v
    return out


def crash_outcome(res, prefix="crash"):
    """Outcome for a child that died (sanitizer report, signal, library abort)."""
    kind, site = res.crash_signature()
    sig = "%s/%s/%s" % (prefix, kind, site)
    head = "\n".join(res.stderr[:40])
    return Outcome(ok=False, sig=sig, msg="child ended %s %d: %s at %s" % (res.kind, res.code, kind, site),
                   detail=head)


_digits = re.compile(r"[0-9]+")


def squash(msg, n=48):
    return _digits.sub("#", msg)[:n].strip()
