#!/bin/bash
# setup_cmd: verify the tools this framework needs and pre-build the executor
# for /repo's current working tree (offline, from files on disk only).
set -e
cd "$(dirname "$0")"
for t in python3-vt clang gcc nasm ar; do
  command -v $t >/dev/null || { echo "missing tool: $t"; exit 1; }
done
python3-vt -c "import hypothesis, numpy, scipy, jsonschema" 
python3-vt -m pbt.build asan rel
echo "setup ok"
