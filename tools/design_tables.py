#!/usr/bin/env python3
"""Regenerates the generated tables in DESIGN.md (between <!-- X-BEGIN --> / <!-- X-END --> markers)
from known_findings.json and notes/sensitivity.json."""
import json
import os
import re

V = os.path.dirname(os.path.dirname(os.path.abspath(__file__)))


def fixed_table():
    k = json.load(open(os.path.join(V, "known_findings.json")))
    rows = ["| property | repo commit | what failed on the original tree |", "|---|---|---|"]
    for ln in k["fixed"]:
        m = re.match(r"fixed: property=(C\d+) (\S+) (.*)", ln)
        rows.append("| %s | `%s` | %s |" % (m.group(1), m.group(2), m.group(3).replace("|", "/")))
    rows.append("")
    if k["open"]:
        rows.append("Open findings (not repaired):")
        rows.append("")
        for e in k["open"]:
            rows.append("* %s `%s`: %s" % (e["property"], e["signature"], e["what"]))
    else:
        rows.append("There is no open (unrepaired) finding: `known_findings.json` has an empty `open` list.")
    return "\n".join(rows)


def sens_table():
    p = os.path.join(V, "notes", "sensitivity.json")
    if not os.path.exists(p):
        return "(no sensitivity run recorded yet)"
    d = json.load(open(p))
    rows = ["| mutation (one at a time, scratch worktree) | file | check: result (seconds to verdict) |", "|---|---|---|"]
    n = caught = 0
    for name in sorted(d):
        e = d[name]
        if "checks" not in e:
            continue
        cells = []
        for c, r in sorted(e["checks"].items()):
            cells.append("%s: %s (%.0f s)%s" % (c, "caught" if r["caught"] else "MISSED", r["seconds"],
                                                (" `" + r["signatures"][0][:60] + "`") if r.get("signatures") else ""))
        if any(r["caught"] for r in e["checks"].values()):
            caught += 1
        n += 1
        rows.append("| %s | %s | %s |" % (name, e["file"], "; ".join(cells)))
    rows.append("")
    rows.append("%d of %d mutants are caught by at least one of the checks expected to catch them (quick tier, "
                "regression corpus switched off, other work running on the machine)." % (caught, n))
    return "\n".join(rows)


def seeded_table():
    d = os.path.join(V, "seeded")
    rows = ["| seeded change (`seeded/<name>/`) | breaks | what it needs to manifest | checks run against it: result |", "|---|---|---|---|"]
    if not os.path.isdir(d):
        return "(none yet)"
    for name in sorted(os.listdir(d)):
        mp = os.path.join(d, name, "meta.json")
        if not os.path.exists(mp):
            continue
        m = json.load(open(mp))
        rp = os.path.join(d, name, "result.json")
        res = json.load(open(rp)) if os.path.exists(rp) else {}
        cells = ["%s: %s (%.0f s)" % (c, "caught" if r["caught"] else "missed", r["seconds"]) for c, r in sorted(res.items())]
        need = m.get("needs_to_manifest", "")
        need = need if len(need) < 260 else need[:257] + "..."
        if m.get("obsolete"):
            cells.append("(obsolete on the current tree: " + m["obsolete"][:160].replace("|", "/") + "...)")
        rows.append("| %s | %s | %s | %s |" % (name, m.get("property"), need.replace("|", "/").replace("\n", " "), "; ".join(cells) or "not run yet"))
    return "\n".join(rows)


def automut_table():
    p = os.path.join(V, "notes", "automut.json")
    if not os.path.exists(p):
        return "(no sweep recorded yet)"
    d = json.load(open(p))
    per = {}
    for k, e in d.items():
        f = per.setdefault(e["file"], dict(caught=0, survived=0, other=0, surv=[]))
        if e["verdict"] == "caught":
            f["caught"] += 1
        elif e["verdict"] == "survived":
            f["survived"] += 1
            f["surv"].append("%d `%s`" % (e["line"], e["op"]))
        else:
            f["other"] += 1
    rows = ["| file | mutants | caught | survived (line, operator) |", "|---|---|---|---|"]
    tc = ts = 0
    for fn in sorted(per):
        f = per[fn]
        tc += f["caught"]
        ts += f["survived"]
        rows.append("| %s | %d | %d | %s |" % (fn, f["caught"] + f["survived"] + f["other"], f["caught"],
                                             "; ".join(sorted(f["surv"])) or "-"))
    rows.append("| **all** | %d | %d | %d survived |" % (len(d), tc, ts))
    return "\n".join(rows)


def main():
    p = os.path.join(V, "DESIGN.md")
    s = open(p).read()
    for tag, fn in (("FIXED", fixed_table), ("SENS", sens_table), ("SEEDED", seeded_table), ("AUTOMUT", automut_table)):
        b, e = "<!-- %s-BEGIN -->" % tag, "<!-- %s-END -->" % tag
        if b in s:
            s = s[:s.index(b) + len(b)] + "\n" + fn() + "\n" + s[s.index(e):]
    open(p, "w").write(s)


if __name__ == "__main__":
    main()
