#!/usr/bin/env python3
"""Sensitivity experiments: apply one mutation at a time to a scratch worktree of
/repo, run the named checks (quick tier, regression corpus switched off so that
the *search* is what is tested) and record whether and how fast they report a
violation.  Results go to notes/sensitivity.json (merged).

usage: tools/mutants.py [name-substring ...]      (no args: all)
"""
import json
import os
import re
import shutil
import subprocess
import sys
import time

VERIF = os.path.dirname(os.path.dirname(os.path.abspath(__file__)))
SCRATCH = "/tmp/mut"

# (name, file, old, new, [checks expected to catch it])
M = []


def mut(name, f, old, new, checks):
    M.append((name, f, old, new, checks))


HH = "src/cmi_hashheap.c"
EV = "src/cmb_event.c"
PR = "src/cmb_process.c"
RG = "src/cmb_resourceguard.c"
RS = "src/cmb_resource.c"
PL = "src/cmb_resourcepool.c"
BF = "src/cmb_buffer.c"
OQ = "src/cmb_objectqueue.c"
PQ = "src/cmb_priorityqueue.c"
CV = "src/cmb_condition.c"

# --- C01 / C02 ---------------------------------------------------------------
mut("ev-prio-inverted", EV, "    if (a->isortkey > b->isortkey) {\n        return true;\n    }\n    if (a->isortkey < b->isortkey) {\n        return false;\n    }\n\n    if (a->key < b->key)",
    "    if (a->isortkey < b->isortkey) {\n        return true;\n    }\n    if (a->isortkey > b->isortkey) {\n        return false;\n    }\n\n    if (a->key < b->key)", ["C01"])
mut("ev-fifo-tiebreak-dropped", EV, "    if (a->key < b->key) {\n        return true;\n    }\n\n    return false;\n}\n\n/*\n * cmb_event_queue_initialize",
    "    return false;\n}\n\n/*\n * cmb_event_queue_initialize", ["C01"])
mut("hh-heap_down-skips-backpointer", HH, "        heap[k] = heap[l];\n        const uint64_t khash = heap[k].hash_index;\n        hash[khash].heap_index = k;\n        k = l;\n    }\n\n    /* Copy the event into its correct position */",
    "        heap[k] = heap[l];\n        k = l;\n    }\n\n    /* Copy the event into its correct position */", ["C02", "C01"])
mut("hh-sift-stops-early", HH, "    const uint64_t j = (hp->heap_count >> 1);\n    while (k <= j) {", "    const uint64_t j = (hp->heap_count >> 1);\n    while (k < j) {", ["C02", "C01"])
mut("hh-no-rehash-on-grow", HH, "                hash[hashidx].key = key;\n                hash[hashidx].heap_index = heapidx;\n                heap[heapidx].hash_index = hashidx;",
    "                hash[hashidx].key = key;\n                hash[hashidx].heap_index = heapidx;", ["C02", "C01"])
mut("hh-remove-wrong-sift", HH, "            if ((*hp->heap_compare)(a, b)) {\n                hp->heap[heapidx] = hp->heap[heapcnt];", "            if (!(*hp->heap_compare)(a, b)) {\n                hp->heap[heapidx] = hp->heap[heapcnt];", ["C02", "C01"])
mut("hh-find_slot-ignores-tombstone-key", HH, "        if (hm[hash].heap_index == 0u) {\n            /* Found a free slot */", "        if (hm[hash].key == 0u) {\n            /* Found a free slot */", ["C02"])
mut("hh-pattern-count-off-by-one", HH, "    uint64_t cnt = 0u;\n    for (uint64_t ui = 1u; ui <= hp->heap_count; ui++) {\n        const struct cmi_heap_tag *htp = &(hp->heap[ui]);\n        if (item_match(htp, val1, val2, val3, val4)) {\n            cnt++;",
    "    uint64_t cnt = 0u;\n    for (uint64_t ui = 1u; ui < hp->heap_count; ui++) {\n        const struct cmi_heap_tag *htp = &(hp->heap[ui]);\n        if (item_match(htp, val1, val2, val3, val4)) {\n            cnt++;", ["C02", "C01"])
mut("ev-reschedule-keeps-old-time", EV, "    cmi_hashheap_reprioritize(event_queue, handle, time, pri);\n}", "    cmi_hashheap_reprioritize(event_queue, handle, cmi_hashheap_dkey(event_queue, handle), pri);\n}", ["C01"])
mut("ev-clock-not-advanced-on-tie", EV, "    sim_time = new_time;", "    if (new_time > sim_time + 1e-9) sim_time = new_time;", ["C01"])

mut("hh-auto-keys-count-down", HH, "    hp->item_counter += 1u;", "    hp->item_counter -= 1u;", ["C01", "C12"])
# --- sim group ----------------------------------------------------------------
mut("hold-keeps-timer-when-woken-otherwise", PR, "        cmb_process_timer_cancel(pp, handle);\n        cmi_process_remove_awaitable(pp, CMI_PROCESS_AWAITABLE_TIME, (void *)handle);", "        cmi_process_remove_awaitable(pp, CMI_PROCESS_AWAITABLE_TIME, (void *)handle);", ["C04"])
mut("interrupt-no-pattern-cancel", PR, "    /* Make sure any previously scheduled wakeup event does not happen */\n    cmb_event_pattern_cancel(CMB_ANY_ACTION, pp, CMB_ANY_OBJECT);", "    /* Make sure any previously scheduled wakeup event does not happen */", ["C04", "C09", "C10"])
mut("timer-wrong-signal", PR, "                                               pp, (void *)sig, t, pri);", "                                               pp, (void *)(sig + (sig == 3)), t, pri);", ["C04"])
mut("waitproc-no-dereg", PR, "            (void)cmb_event_pattern_cancel(wakeup_event_process, me, CMB_ANY_OBJECT);\n", "", ["C04"])
mut("resource-acquire-no-recheck", RS, "    } while ((ret == CMB_PROCESS_SUCCESS) && (rp->holder != NULL));", "    } while (false);", ["C05"])
mut("resource-preempt-no-evict", RS, "        cmi_process_remove_holdable(victim, hrp);\n        rp->holder = NULL;", "        rp->holder = NULL;", ["C05", "C09", "C10"])
mut("resource-drop-no-signal", RS, "    rp->holder = NULL;\n    record_sample(rp);\n    cmb_resourceguard_signal(&(rp->guard));\n}", "    rp->holder = NULL;\n    record_sample(rp);\n}", ["C08", "C09"])
mut("resource-release-no-signal", RS, "    struct cmb_resourceguard *rgp = &(rp->guard);\n    cmb_resourceguard_signal(rgp);\n}", "}", ["C08"])
mut("guard-order-time-ignored", RG, "    if (a->dsortkey < b->dsortkey) {\n        return true;\n    }\n    if (a->dsortkey > b->dsortkey) {\n        return false;\n    }\n", "", ["C06", "C02"])
mut("guard-order-lowest-prio-first", RG, "    if (a->isortkey > b->isortkey) {\n        return true;\n    }\n    if (a->isortkey < b->isortkey) {\n        return false;\n    }", "    if (a->isortkey < b->isortkey) {\n        return true;\n    }\n    if (a->isortkey > b->isortkey) {\n        return false;\n    }", ["C06", "C02"])
mut("setprio-does-not-requeue", PR, "                cmi_hashheap_reprioritize(hp, key, etime, pri);\n            }", "            }", ["C06"])
mut("pool-rollback-forgets-initially-held", PL, "                const uint64_t surplus = reset_holder(hhp, caller, initially_held);", "                const uint64_t surplus = reset_holder(hhp, caller, (initially_held > 1u) ? initially_held - 1u : initially_held);", ["C07"])
mut("pool-victim-le", PL, "                   && cmi_hashheap_peek_ikey(hhp) < caller->priority) {", "                   && cmi_hashheap_peek_ikey(hhp) <= caller->priority) {", ["C07"])
mut("pool-release-double-decrement", PL, "    /* Put it back and ring the front desk bell */\n    rpp->in_use -= rel_amount;", "    /* Put it back and ring the front desk bell */\n    rpp->in_use -= (rel_amount > 1u && rpp->in_use > rel_amount) ? rel_amount + 1u : rel_amount;", ["C07"])
mut("pool-release-no-signal", PL, "    struct cmb_resourceguard *rgp = &(rpp->guard);\n    cmb_resourceguard_signal(rgp);\n}", "}", ["C08"])
mut("pool-drop-no-signal", PL, "        record_sample(rpp);\n        cmb_resourceguard_signal(&(rpp->guard));\n    }\n}", "        record_sample(rpp);\n    }\n}", ["C08", "C09"])
mut("buffer-get-no-rear-signal", BF, "            cmb_assert_debug(bp->level <= bp->capacity);\n            cmb_resourceguard_signal(&(bp->rear_guard));\n            if (bp->level > 0u) {", "            cmb_assert_debug(bp->level <= bp->capacity);\n            if (bp->level > 0u) {", ["C08"])
mut("buffer-put-reports-rem-claim", BF, "            *amntp -= grab;\n            rem_claim -= grab;\n            cmb_logger_info(stdout,\n                            \"Pushed in", "            rem_claim -= grab;\n            cmb_logger_info(stdout,\n                            \"Pushed in", ["C11"])
mut("buffer-get-partial-not-reported", BF, "            *amntp += grab;\n            rem_claim -= grab;", "            rem_claim -= grab;", ["C11"])
mut("oq-loses-end-when-empty", OQ, "            if (oqp->queue_head == NULL) {\n                oqp->queue_end = NULL;\n            }", "", ["C12", "C10"])
mut("oq-lifo", OQ, "                oqp->queue_end->next = tag;\n            }\n\n            oqp->queue_end = tag;", "                tag->next = oqp->queue_head;\n                oqp->queue_head = tag;\n            }\n", ["C12"])
mut("pq-lifo-on-equal-priority", PQ, "    return (a->key < b->key);", "    return (a->key > b->key);", ["C12"])
mut("pq-position-counts-itself", PQ, "        if (tag == target) {\n            continue;\n        }\n", "", ["C12"])
mut("pq-get-no-signal", PQ, "            cmb_logger_info(stdout, \"Success, got %p\", *objectloc);\n            cmb_resourceguard_signal(&(pqp->rear_guard));", "            cmb_logger_info(stdout, \"Success, got %p\", *objectloc);", ["C08"])
mut("cond-signal-first-pass-only-head", CV, "    for (uint64_t ui = 1; ui <= hp->heap_count; ui++) {\n        /* Decode the hashheap item */", "    for (uint64_t ui = 1; ui <= 1u && ui <= hp->heap_count; ui++) {\n        /* Decode the hashheap item */", ["C13"])
mut("cond-forward-dropped", RG, "        if (obs->forward != NULL) {\n            (void)(*(obs->forward))(obs);\n        }\n        else {\n            (void)cmb_resourceguard_signal(obs);\n        }", "        (void)obs;", ["C13"])
mut("cond-wakes-unsatisfied", CV, "        if ((*demand)(cvp, pp, ctx)) {", "        if ((*demand)(cvp, pp, ctx) || ui == 2u) {", ["C13"])
mut("cond-cancel-wrong-code", RG, "                                 (void *)CMB_PROCESS_CANCELLED,", "                                 (void *)CMB_PROCESS_INTERRUPTED,", ["C13", "C04"])
mut("resource-acquire-no-record", RS, "        /* Easy, grab it */\n        resource_grab(rp, pp);\n        record_sample(rp);\n        cmb_logger_info(stdout, \"Acquired %s\", rbp->name);\n        return CMB_PROCESS_SUCCESS;", "        /* Easy, grab it */\n        resource_grab(rp, pp);\n        cmb_logger_info(stdout, \"Acquired %s\", rbp->name);\n        return CMB_PROCESS_SUCCESS;", ["C14"])
mut("buffer-record-before-update", BF, "            bp->level -= rem_claim;\n            record_sample(bp);", "            record_sample(bp);\n            bp->level -= rem_claim;", ["C14"])
mut("pool-preempt-surplus-not-recorded", PL, "                    rpp->in_use -= surplus;\n                    cmb_assert_debug(rpp->in_use <= rpp->capacity);\n                    record_sample(rpp);", "                    rpp->in_use -= surplus;\n                    cmb_assert_debug(rpp->in_use <= rpp->capacity);", ["C14"])
mut("exit-wakes-waiters-with-stopped", PR, "    wake_process_waiters(&(pp->waiters), CMB_PROCESS_SUCCESS);", "    wake_process_waiters(&(pp->waiters), CMB_PROCESS_STOPPED);", ["C09"])
mut("stop-skips-drop-resources", PR, "    cmi_process_cancel_awaiteds(tgt);\n    cmi_process_drop_resources(tgt);\n    wake_process_waiters(&(tgt->waiters), CMB_PROCESS_STOPPED);", "    cmi_process_cancel_awaiteds(tgt);\n    wake_process_waiters(&(tgt->waiters), CMB_PROCESS_STOPPED);", ["C09"])
mut("stop-self-no-cleanup", PR, "    /* Clean up unfinished business */\n    cmi_process_cancel_awaiteds(tgt);\n    cmi_process_drop_resources(tgt);\n    wake_process_waiters(&(tgt->waiters), CMB_PROCESS_STOPPED);", "    /* Clean up unfinished business */\n    if (tgt != cmb_process_current()) {\n    cmi_process_cancel_awaiteds(tgt);\n    cmi_process_drop_resources(tgt);\n    wake_process_waiters(&(tgt->waiters), CMB_PROCESS_STOPPED);\n    }", ["C09"])

mut("unregister-removes-first-observer", RG, "        if (op->observer == obs) {\n            cmi_slist_pop(ohead);", "        if (op->observer != NULL) {\n            cmi_slist_pop(ohead);", ["C13"])
mut("unregister-leaves-observer", RG, "        if (op->observer == obs) {\n            cmi_slist_pop(ohead);\n            cmi_mempool_free(&observer_tagpool, op);\n            return true;", "        if (op->observer == obs) {\n            return true;", ["C13"])
mut("unregister-returns-false", RG, "            cmi_mempool_free(&observer_tagpool, op);\n            return true;", "            cmi_mempool_free(&observer_tagpool, op);\n            return false;", ["C13"])
mut("timers-clear-stops-at-non-timer", PR, "            /* Skip to next */\n            awaits = awaits->next;", "            /* Skip to next */\n            break;", ["C04"])
mut("timers-clear-drops-first-awaitable", PR, "        if (pa->type == CMI_PROCESS_AWAITABLE_TIME) {\n            /* Recycle the tag */\n            cmi_slist_pop(awaits);", "        if (pa->type == CMI_PROCESS_AWAITABLE_TIME) {\n            /* Recycle the tag */\n            cmi_slist_pop(&(pp->awaits));", ["C04"])
mut("acf-cross-products-negated", "src/cmb_dataset.c", "            dk += (dsp->xa[ui] - m1) * (dsp->xa[ui + ulag] - m1);", "            dk -= (dsp->xa[ui] - m1) * (dsp->xa[ui + ulag] - m1);", ["C18"])
# --- C03 ------------------------------------------------------------------------
ASM = "src/port/x86-64/linux/cmi_coroutine_context.asm"
CTX = "src/port/x86-64/linux/cmi_coroutine_context.c"
CO = "src/cmi_coroutine.c"
mut("asm-r12-not-saved", ASM, "    push r12\n    push r13", "    sub rsp, 8\n    push r13", ["C03"])
mut("asm-pops-swapped", ASM, "    pop r14\n    pop r13", "    pop r13\n    pop r14", ["C03"])
mut("asm-no-ldmxcsr", ASM, "    ldmxcsr [rsp + 4]\n", "", ["C03"])
mut("asm-trampoline-args-swapped", ASM, "    mov rdi, r13\n    mov rsi, r14", "    mov rdi, r14\n    mov rsi, r13", ["C03", "C09"])
mut("coro-exit-to-caller", CO, "    cmi_coroutine_transfer(cp->parent, retval);", "    cmi_coroutine_transfer(cp->caller, retval);", ["C03"])
mut("coro-exit-value-lost", CO, "    cp->exit_value = retval;\n    cp->status = CMI_COROUTINE_FINISHED;\n    cmi_coroutine_transfer", "    cp->status = CMI_COROUTINE_FINISHED;\n    cmi_coroutine_transfer", ["C03", "C09"])

# --- statistics, random, experiment, mempool (independent cross-check of the builder-made checks) ----------
DS = "src/cmb_datasummary.c"
WS = "src/cmb_wtdsummary.c"
TS = "src/cmb_timeseries.c"
DA = "src/cmb_dataset.c"
RN = "src/cmb_random.c"
CI = "src/cimba.c"
MP = "src/cmi_mempool.c"
mut("summary-m4-update-3-instead-of-6", DS, "- 6.0 * d_n_2 * dsp->m2 - 4.0 * d_n * dsp->m3;", "- 3.0 * d_n_2 * dsp->m2 - 4.0 * d_n * dsp->m3;", ["C17"])
mut("summary-merge-m3-n1-n2-swapped", DS, "+ 4.0 * (n1 * dsp2->m3 - n2 * dsp1->m3) * d21_n;", "+ 4.0 * (n2 * dsp2->m3 - n1 * dsp1->m3) * d21_n;", ["C17"])
mut("ts-sort-leaves-weight-behind", TS, "            cmi_dataset_swap(&(tsp->wa[0]), &(tsp->wa[ui]));\n", "", ["C18"])
mut("ts-sort-heapify-skips-one-array", TS, "            cmi_dataset_swap(&da2[uroot], &da2[ubig]);\n", "", ["C18"])
mut("random-19-discards", RN, "    for (int i = 0; i < 20; i++) {", "    for (int i = 0; i < 19; i++) {", ["C15"])
mut("random-sfc64-shift-changed", RN, "prng_state.b = prng_state.c + (prng_state.c << 3);", "prng_state.b = prng_state.c + (prng_state.c << 2);", ["C15", "C16"])
mut("experiment-bound-off-by-one", CI, "        if (idx >= cmg_total_trials) {", "        if (idx + 1u >= cmg_total_trials) {", ["C19"])
mut("experiment-non-atomic-dispenser", CI, "const uint64_t idx = __atomic_fetch_add(&cmg_next_trial_idx, 1, __ATOMIC_SEQ_CST);", "const uint64_t idx = cmg_next_trial_idx; cmg_next_trial_idx = idx + 1u;", ["C19"])
mut("mempool-free-does-not-link", "src/cmi_mempool.h", "    *(void **)op = mp->next_obj;\n    mp->next_obj = op;", "    mp->next_obj = op;", ["C20", "C10"])
mut("mempool-last-object-not-terminated", MP, "    /* Set the next pointer in the last object to NULL, end of the list */\n    *vp = NULL;", "    /* Set the next pointer in the last object to NULL, end of the list */", ["C20", "C10"])


def run(cmd, **kw):
    return subprocess.run(cmd, stdout=subprocess.PIPE, stderr=subprocess.STDOUT, **kw)


def main():
    sel = sys.argv[1:]
    out_path = os.path.join(VERIF, "notes", "sensitivity.json")
    os.makedirs(os.path.dirname(out_path), exist_ok=True)
    results = json.load(open(out_path)) if os.path.exists(out_path) else {}
    for (name, f, old, new, checks) in M:
        if sel and not any(s in name for s in sel):
            continue
        wt = os.path.join(SCRATCH, "repo")
        shutil.rmtree(SCRATCH, ignore_errors=True)
        run(["git", "-C", "/repo", "worktree", "prune"])
        os.makedirs(SCRATCH)
        r = run(["git", "-C", "/repo", "worktree", "add", "--detach", wt, "HEAD"])
        path = os.path.join(wt, f)
        src = open(path).read()
        if old not in src:
            print("%-40s MUTATION DOES NOT APPLY" % name)
            results[name] = {"error": "does not apply"}
            run(["git", "-C", "/repo", "worktree", "remove", "--force", wt])
            continue
        open(path, "w").write(src.replace(old, new, 1))
        env = dict(os.environ, VERIF_REPO=wt, VERIF_OUT=os.path.join(SCRATCH, "out"),
                   VERIF_BUILD_ROOT=os.path.join(SCRATCH, "build"), VERIF_NO_REGRESSIONS="1")
        res = {}
        for c in checks:
            t0 = time.time()
            r = run([os.path.join(VERIF, "check"), c, "--tier", "quick"], env=env)
            txt = r.stdout.decode(errors="replace")
            sig = re.findall(r"signature: (.*?) \(", txt)
            res[c] = dict(caught=(r.returncode == 1), exit=r.returncode, seconds=round(time.time() - t0, 1),
                          signatures=sig[:3])
            print("%-40s %s %-7s %5.1fs %s" % (name, c, "CAUGHT" if r.returncode == 1 else
                                              ("ERROR" if r.returncode == 2 else "missed"), time.time() - t0, sig[:2]))
            sys.stdout.flush()
        results[name] = dict(file=f, checks=res)
        json.dump(results, open(out_path, "w"), indent=1, sort_keys=True)
        run(["git", "-C", "/repo", "worktree", "remove", "--force", wt])
        shutil.rmtree(SCRATCH, ignore_errors=True)
    run(["git", "-C", "/repo", "worktree", "prune"])


if __name__ == "__main__":
    main()
