#!/usr/bin/env python3
"""Run the registered quick checks against the seeded changes kept under /verif/seeded/<name>/.

Each change is applied to a scratch worktree of /repo (never to /repo itself), the checks
named in its meta.json ("checks", default: the property it breaks) are run with the
regression corpus on (as the registered command does), and the outcome is written to
seeded/<name>/result.json.   usage: tools/run_seeded.py [name ...]
"""
import json
import os
import re
import shutil
import subprocess
import sys
import time

VERIF = os.path.dirname(os.path.dirname(os.path.abspath(__file__)))
SCR = "/tmp/seedrun"


def run(cmd, **kw):
    return subprocess.run(cmd, stdout=subprocess.PIPE, stderr=subprocess.STDOUT, **kw)


def main():
    names = sys.argv[1:] or sorted(os.listdir(os.path.join(VERIF, "seeded")))
    for name in names:
        d = os.path.join(VERIF, "seeded", name)
        if not os.path.exists(os.path.join(d, "patch.diff")):
            continue
        meta = json.load(open(os.path.join(d, "meta.json")))
        checks = meta.get("checks") or [meta["property"]]
        shutil.rmtree(SCR, ignore_errors=True)
        run(["git", "-C", "/repo", "worktree", "prune"])
        os.makedirs(SCR)
        wt = os.path.join(SCR, "repo")
        run(["git", "-C", "/repo", "worktree", "add", "--detach", wt, "HEAD"])
        r = run(["git", "-C", wt, "apply", os.path.join(d, "patch.diff")])
        if r.returncode != 0:
            print("%-28s PATCH DOES NOT APPLY: %s" % (name, r.stdout.decode()[:200]))
            run(["git", "-C", "/repo", "worktree", "remove", "--force", wt])
            continue
        env = dict(os.environ, VERIF_REPO=wt, VERIF_OUT=os.path.join(SCR, "out"),
                   VERIF_BUILD_ROOT=os.path.join(SCR, "build"))
        res = {}
        for c in checks:
            t0 = time.time()
            r = run([os.path.join(VERIF, "check"), c, "--tier", "quick"], env=env)
            txt = r.stdout.decode(errors="replace")
            sig = re.findall(r"signature: (.*?) \(", txt)
            res[c] = dict(caught=(r.returncode == 1), exit=r.returncode, seconds=round(time.time() - t0, 1),
                          signatures=sig[:3])
            print("%-28s %s %-7s %5.1fs %s" % (name, c, "CAUGHT" if r.returncode == 1 else
                                              ("ERROR" if r.returncode == 2 else "missed"), time.time() - t0, sig[:2]))
            sys.stdout.flush()
        json.dump(res, open(os.path.join(d, "result.json"), "w"), indent=1, sort_keys=True)
        run(["git", "-C", "/repo", "worktree", "remove", "--force", wt])
        shutil.rmtree(SCR, ignore_errors=True)
    run(["git", "-C", "/repo", "worktree", "prune"])


if __name__ == "__main__":
    main()
