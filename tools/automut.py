#!/usr/bin/env python3
"""Mechanical mutation sweep: a blind-spot finder for the checks.

Unlike tools/mutants.py (hand-written, semantically chosen mutants) this draws single-token
mutations mechanically from the library sources: relational operator swaps, && <-> ||, += <-> -=,
+1 <-> -1, true <-> false in returns, deletion of a call statement. Lines that cannot matter to a
valid program are left alone (assertions, logging, report printing, comments). Each mutant is
applied to a scratch worktree of /repo (never /repo itself), the checks mapped to the file are
run (quick tier, regression corpus off, first detection stops), and the outcome is recorded in
notes/automut.json. Survivors are candidates for either "equivalent" or "generator/oracle gap"
and are reviewed by hand (DESIGN.md par. 5.4).

usage: tools/automut.py [--n 100] [--seed 1] [--files a.c,b.c] [--workers 10]
"""
import json
import os
import random
import re
import shutil
import subprocess
import sys
import time

VERIF = os.path.dirname(os.path.dirname(os.path.abspath(__file__)))
SCR = "/tmp/automut"

CHECKS = {
    "cmb_event.c": ["C01", "C04", "C10"], "cmi_hashheap.c": ["C02", "C01", "C10"],
    "cmb_process.c": ["C04", "C09", "C06", "C08", "C10"],
    "cmb_resourceguard.c": ["C06", "C08", "C13", "C04", "C10"], "cmb_resource.c": ["C05", "C08", "C14", "C10"],
    "cmb_resourcepool.c": ["C07", "C08", "C14", "C10"], "cmb_buffer.c": ["C11", "C08", "C14", "C10"],
    "cmb_objectqueue.c": ["C12", "C08", "C14", "C10"], "cmb_priorityqueue.c": ["C12", "C08", "C14", "C10"],
    "cmb_condition.c": ["C13", "C10"],
    "cmb_datasummary.c": ["C17"], "cmb_wtdsummary.c": ["C17"], "cmb_dataset.c": ["C18", "C17"],
    "cmb_timeseries.c": ["C18", "C14", "C17"], "cmb_random.c": ["C16", "C15"], "cimba.c": ["C19"],
    "cmi_mempool.c": ["C20", "C10"], "cmi_coroutine.c": ["C03", "C09", "C10"], "cmi_holdable.c": ["C09"],
    "cmi_resourcebase.c": ["C14"],
}
SKIP_LINE = re.compile(r"cmb_assert|cmb_logger|cmi_logger|fprintf|printf|fputc|fflush|^\s*(/\*|\*|//)|#\s*(include|define|if|endif)")
SKIP_FUNC = re.compile(r"print|_report|correlogram|data_bar|is_sorted|is_max_heap|stack_valid|queue_check|order_check|sum_holder_items")

OPS = [
    (re.compile(r"(?<![<>=!-])<(?![<=])"), "<="), (re.compile(r"<=(?!=)"), "<"),
    (re.compile(r"(?<![<>=!-])>(?![>=])"), ">="), (re.compile(r">=(?!=)"), ">"),
    (re.compile(r"=="), "!="), (re.compile(r"!="), "=="),
    (re.compile(r"&&"), "||"), (re.compile(r"\|\|"), "&&"),
    (re.compile(r"\+="), "-="), (re.compile(r"-="), "+="),
    (re.compile(r"\+ 1u?\b"), "- 1"), (re.compile(r"- 1u?\b"), "+ 1"),
    (re.compile(r"\+\+"), "--"), (re.compile(r"return true;"), "return false;"),
    (re.compile(r"return false;"), "return true;"),
]
CALL_STMT = re.compile(r"^\s+(\(void\))?\s*[a-z_][a-zA-Z0-9_]*\([^;{}]*\);\s*$")


def run(cmd, **kw):
    return subprocess.run(cmd, stdout=subprocess.PIPE, stderr=subprocess.STDOUT, **kw)


def candidates(fname):
    path = os.path.join("/repo/src", fname)
    lines = open(path).read().split("\n")
    out = []
    func = ""
    in_comment = False
    for i, ln in enumerate(lines):
        if "/*" in ln and "*/" not in ln:
            in_comment = True
        if in_comment:
            if "*/" in ln:
                in_comment = False
            continue
        m = re.match(r"^[a-zA-Z_].*?\b([a-zA-Z_][a-zA-Z0-9_]*)\s*\(", ln)
        if m and not ln.rstrip().endswith(";"):
            func = m.group(1)
        if SKIP_LINE.search(ln) or SKIP_FUNC.search(func) or not ln.strip():
            continue
        code = ln.split("/*")[0]
        for rx, rep in OPS:
            for mm in rx.finditer(code):
                new = ln[:mm.start()] + rep + ln[mm.end():]
                out.append((fname, i, func, "%s -> %s" % (mm.group(0), rep), ln, new))
        if CALL_STMT.match(code) and "free" not in code and "va_" not in code:
            out.append((fname, i, func, "delete call", ln, ""))
    return out


def main():
    a = sys.argv[1:]
    n, seed, files, workers, retest = 100, 1, sorted(CHECKS), "10", False
    while a:
        k = a.pop(0)
        if k == "--n":
            n = int(a.pop(0))
        elif k == "--seed":
            seed = int(a.pop(0))
        elif k == "--files":
            files = a.pop(0).split(",")
        elif k == "--workers":
            workers = a.pop(0)
        elif k == "--retest":
            retest = True
    out_path = os.path.join(VERIF, "notes", "automut.json")
    results = json.load(open(out_path)) if os.path.exists(out_path) else {}
    if retest:
        # survivors (and errors) of earlier sweeps are tried again, e.g. after a generator was strengthened
        for k in [k for k, v in results.items() if v["verdict"] != "caught"]:
            del results[k]
    cands = []
    for f in files:
        cands += candidates(f)
    rnd = random.Random(seed)
    rnd.shuffle(cands)
    done = 0
    for (f, i, func, op, old, new) in cands:
        if done >= n:
            break
        key = "%s:%d:%s" % (f, i + 1, op)
        if key in results:
            continue
        shutil.rmtree(SCR, ignore_errors=True)
        run(["git", "-C", "/repo", "worktree", "prune"])
        os.makedirs(SCR)
        wt = os.path.join(SCR, "repo")
        run(["git", "-C", "/repo", "worktree", "add", "--detach", wt, "HEAD"])
        path = os.path.join(wt, "src", f)
        lines = open(path).read().split("\n")
        assert lines[i] == old
        lines[i] = new
        open(path, "w").write("\n".join(lines))
        env = dict(os.environ, VERIF_REPO=wt, VERIF_OUT=os.path.join(SCR, "out"), VERIF_WORKERS=workers,
                   VERIF_BUILD_ROOT=os.path.join(SCR, "build"), VERIF_NO_REGRESSIONS="1")
        res = dict(file=f, line=i + 1, func=func, op=op, before=old.strip(), after=new.strip(), checks={})
        verdict = "survived"
        for c in CHECKS[f]:
            t0 = time.time()
            r = run([os.path.join(VERIF, "check"), c, "--tier", "quick"], env=env)
            txt = r.stdout.decode(errors="replace")
            sig = re.findall(r"signature: (.*?) \(", txt)
            res["checks"][c] = dict(exit=r.returncode, seconds=round(time.time() - t0, 1), signatures=sig[:2])
            if r.returncode == 1:
                verdict = "caught"
                break
            if r.returncode != 0:
                verdict = "build-or-machinery-error"
                res["tail"] = txt[-400:]
                break
        res["verdict"] = verdict
        results[key] = res
        json.dump(results, open(out_path, "w"), indent=1, sort_keys=True)
        print("%-9s %-46s %-28s %s | %s" % (verdict, key, func, old.strip()[:60],
                                           " ".join("%s:%s" % (c, v["exit"]) for c, v in res["checks"].items())))
        sys.stdout.flush()
        run(["git", "-C", "/repo", "worktree", "remove", "--force", wt])
        shutil.rmtree(SCR, ignore_errors=True)
        done += 1
    run(["git", "-C", "/repo", "worktree", "prune"])


if __name__ == "__main__":
    main()
