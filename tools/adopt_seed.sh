#!/bin/bash
# tools/adopt_seed.sh <scratch dir> <name> "<checks>" ["<cmd without change>" "<cmd with change>"]
# Re-runs the sub-agent's demonstration (must PASS without / FAIL with the change), reads the test log,
# and copies patch.diff, demo.c, demo.sh (+helpers), meta.json into /verif/seeded/<name>/ with the lead's confirmation.
S=$1; N=$2; CH=$3; C0=$4; C1=$5
V=$(cd "$(dirname "$0")/.." && pwd)
cd $S || exit 1
if [ -z "$C0" ]; then
  ( sh demo.sh > demo_rerun.log 2>&1 )
else
  [ -d orig ] || { mkdir orig && git -C repo archive HEAD | tar -x -C orig; }
  ( echo "== unmodified library: $C0"; sh -c "$C0"; echo "exit $?"; echo "== with the change: $C1"; sh -c "$C1"; echo "exit $?" ) > demo_rerun.log 2>&1
fi
tail -14 demo_rerun.log
TL=$(ls test.log meson_run.log meson_test.log 2>/dev/null | head -1)
T=$(grep -E "^Ok:" $TL 2>/dev/null | awk '{print $2}')
echo "tests Ok: ${T:-unknown} ($TL)"
mkdir -p $V/seeded/$N
cp patch.diff demo.c demo.sh $V/seeded/$N/
[ -f buildlib.sh ] && cp buildlib.sh $V/seeded/$N/
python3 - "$S" "$V/seeded/$N" "$CH" "${T:-unknown}" <<'PY'
import json,sys
s,d,ch,t=sys.argv[1:5]
m=json.load(open(s+'/meta.json'))
m['checks']=ch.split()
m['lead_confirmation']={'demo_rerun_tail':open(s+'/demo_rerun.log').read()[-900:], 'repo_tests_ok_with_change': t,
  'how': 'lead re-ran the demonstration against the unmodified HEAD and against the worktree with the change, and read the sub-agent meson test log (15 tests)'}
json.dump(m,open(d+'/meta.json','w'),indent=1)
PY
echo adopted $N
