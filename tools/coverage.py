#!/usr/bin/env python3
"""Measure which library code the generated cases of the checks actually execute.

Builds the `cov` variant (gcc -O0 --coverage) of libcimba + cimx in a scratch build root,
runs the quick tier of the given checks (default: all) at a reduced budget with
VERIF_COV=1 (every build variant is replaced by `cov`; verdicts of these runs are ignored),
then runs gcov over the library objects and writes notes/coverage.md: per source file the
executed share of lines and the functions no generated case entered. A measurement of the
generators, not a check: nothing registered in MANIFEST.json depends on it.

usage: tools/coverage.py [--scale 0.3] [check ...]
"""
import glob
import json
import os
import re
import shutil
import subprocess
import sys

VERIF = os.path.dirname(os.path.dirname(os.path.abspath(__file__)))
SCR = "/tmp/covrun"


def main():
    args = sys.argv[1:]
    scale = "0.3"
    if args[:1] == ["--scale"]:
        scale = args[1]
        args = args[2:]
    checks = args or ["C%02d" % i for i in range(1, 21)]
    shutil.rmtree(SCR, ignore_errors=True)
    os.makedirs(SCR)
    env = dict(os.environ, VERIF_COV="1", VERIF_BUILD_ROOT=os.path.join(SCR, "build"),
               VERIF_OUT=os.path.join(SCR, "out"), VERIF_BUDGET_SCALE=scale, VERIF_TIER="quick")
    per_check = {}
    for c in checks:
        r = subprocess.run([os.path.join(VERIF, "check"), c, "--tier", "quick"], env=env,
                           stdout=subprocess.PIPE, stderr=subprocess.STDOUT)
        last = [l for l in r.stdout.decode(errors="replace").splitlines() if l.startswith(c + " quick")]
        per_check[c] = (r.returncode, last[-1] if last else "")
        print(c, r.returncode, last[-1] if last else "(no summary line)")
        sys.stdout.flush()
    bdirs = glob.glob(os.path.join(SCR, "build", "cov-*"))
    assert len(bdirs) == 1, bdirs
    obj = os.path.join(bdirs[0], "obj")
    files = {}
    funcs = {}
    for gcda in sorted(glob.glob(os.path.join(obj, "*.gcda"))):
        base = os.path.basename(gcda)[:-5]
        if base.startswith("h_"):
            continue
        r = subprocess.run(["gcov", "-f", "-o", obj, gcda], cwd=SCR, stdout=subprocess.PIPE,
                           stderr=subprocess.STDOUT)
        cur = None
        for ln in r.stdout.decode(errors="replace").splitlines():
            m = re.match(r"(Function|File) '(.*)'", ln)
            if m:
                cur = (m.group(1), m.group(2))
                continue
            m = re.match(r"Lines executed:([0-9.]+)% of (\d+)", ln)
            if m and cur:
                pct, n = float(m.group(1)), int(m.group(2))
                if cur[0] == "File":
                    if "/src/" in cur[1] and cur[1].endswith(".c"):
                        files[os.path.basename(cur[1])] = (pct, n)
                else:
                    funcs.setdefault(base + ".c", {})[cur[1]] = (pct, n)
                cur = None
    out = ["# Library coverage reached by the generated cases (tools/coverage.py)", "",
           "Checks run: %s at budget scale %s (quick tier, `cov` variant: gcc -O0 --coverage; a child that" % (
               " ".join(checks), scale),
           "dies by a signal leaves no counts). Lines are gcov's executable lines.", "",
           "| file | lines | executed | functions never entered |", "|---|---|---|---|"]
    tot = hit = 0
    for f in sorted(files):
        pct, n = files[f]
        tot += n
        hit += pct * n / 100.0
        src = open(os.path.join(os.environ.get("VERIF_REPO", "/repo"), "src", f)).read() \
            if os.path.exists(os.path.join(os.environ.get("VERIF_REPO", "/repo"), "src", f)) else ""
        never = sorted(k for k, v in funcs.get(f, {}).items() if v[0] == 0.0
                       and re.search(r"^[A-Za-z_][^;\n]*\b%s\s*\([^;]*$" % re.escape(k), src, re.M))
        out.append("| %s | %d | %.1f%% | %s |" % (f, n, pct, ", ".join(never) or "-"))
    out.append("| **all** | %d | %.1f%% | |" % (tot, 100.0 * hit / max(1, tot)))
    out.append("")
    open(os.path.join(VERIF, "notes", "coverage.md"), "w").write("\n".join(out))
    json.dump(dict(files=files, funcs=funcs, checks=per_check), open(os.path.join(VERIF, "notes", "coverage.json"), "w"),
              indent=1, sort_keys=True)
    print("\n".join(out))
    # the executable lines no case reached, with their source text
    with open(os.path.join(VERIF, "notes", "coverage_uncovered.txt"), "w") as fh:
        for f in sorted(files):
            g = os.path.join(SCR, f + ".gcov")
            if not os.path.exists(g):
                continue
            fh.write("==== %s\n" % f)
            for ln in open(g, errors="replace"):
                if ln.lstrip().startswith("#####"):
                    parts = ln.split(":", 2)
                    fh.write("%6s: %s" % (parts[1].strip(), parts[2]))
    shutil.rmtree(SCR, ignore_errors=True)


if __name__ == "__main__":
    main()
