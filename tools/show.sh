#!/bin/bash
# tools/show.sh <replay file> [trace-filter-regex]  - compact view of a replay file
f=$1; pat=${2:-.}
grep -v "^#" $f | grep -v "^$"
echo "--- violations"; grep "^# | C[0-9][0-9] " $f | cut -c5-
echo "--- trace"; grep "^# | [CRXBKZLUQGTPVH] \|^# | S " $f | cut -c5- | grep -E "$pat" | tail -${3:-60}
