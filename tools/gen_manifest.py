#!/usr/bin/env python3
"""Regenerates /verif/MANIFEST.json from the table below (run after editing)."""
import json
import os

VERIF = os.path.dirname(os.path.dirname(os.path.abspath(__file__)))
ALL = ["C%02d" % i for i in range(1, 21)]

# id -> (technique, level text, level note, design ref)
CLAIMED = {
    "C01": ("property-based testing (Hypothesis op trees incl. mutation from inside event actions) against an "
            "in-executor reference model; libFuzzer structure-aware front end in the thorough tier",
            "Search, not proof: generated histories on the real event queue are compared, after every "
            "operation and inside every action, with an array model ordered by (time, priority, handle); "
            "held on everything explored.",
            "Trusts the reference model in harness/m_event.c, Hypothesis, clang sanitizers; NaN times and "
            "times below the clock are outside the domain.", "DESIGN.md §3 C01"),
    "C02": ("property-based testing (Hypothesis stateful op histories) against an in-executor reference "
            "model; libFuzzer structure-aware front end in the thorough tier",
            "Search, not proof: generated operation histories on the real hashheaps (all four library "
            "orderings plus the default) are cross-checked after every operation against an array model; "
            "held on everything explored.",
            "Trusts the reference model in harness/m_hashheap.c, Hypothesis, clang sanitizers; NaN keys and "
            "key 0 are outside the domain.", "DESIGN.md §3 C02"),
}

NOT_YET = "check not built yet in this session (work in progress; see DESIGN.md §3 for the planned check)"


def main():
    checks = []
    for pid in ALL:
        if pid not in CLAIMED:
            continue
        tech, text, note, ref = CLAIMED[pid]
        checks.append({
            "property_id": pid,
            "quick_cmd": "./check %s --tier quick" % pid,
            "thorough_cmd": "./check %s --tier thorough" % pid,
            "evidence_file": "/verif/evidence/%s.json" % pid,
            "replay_cmd_template": "./check replay %s {path}" % pid,
            "engine": "pbt",
            "level_claimed": {"category": "exploration", "text": text, "design_ref": ref},
            "level_note": note,
            "technique": tech,
        })
    man = {
        "version": 1,
        "setup_cmd": "./setup.sh",
        "hooks": {
            "guard": "CIMBA_VERIF",
            "enable": "pbt/build.py compiles /repo's working tree directly with -DCIMBA_VERIF "
                      "(clang -fsanitize=address,undefined for the 'asan' variant, gcc -O3 for 'rel')",
            "baseline_off_cmd": "meson test -C /repo/_build",
            "source_commits": json.load(open(os.path.join(VERIF, "tools", "hook_commits.json"))),
            "add_only": True,
        },
        "engines": [
            {"name": "pbt", "path": "/verif/pbt",
             "serves_properties": sorted(CLAIMED),
             "kind_free_text": "Hypothesis (python3-vt) generators + shrinking driving the C executor "
                               "harness/cimx (fork per case, ASan+UBSan build of /repo's working tree); "
                               "libFuzzer front ends in the thorough tier for C01/C02/C20"},
        ],
        "checks": checks,
        "not_applicable": [{"property_id": p, "reason": NOT_YET} for p in ALL if p not in CLAIMED],
        "notes": "All checks rebuild libcimba from /repo's current working tree (cache keyed by content hash "
                 "under /verif/build). VERIF_SEED selects the Hypothesis seeds; 0/unset maps to a fixed "
                 "constant. Exit 0 = held on everything explored, 1 = VIOLATION line printed, 2 = machinery "
                 "error (no verdict).",
    }
    with open(os.path.join(VERIF, "MANIFEST.json"), "w") as fh:
        json.dump(man, fh, indent=1)
        fh.write("\n")


if __name__ == "__main__":
    main()
