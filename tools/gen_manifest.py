#!/usr/bin/env python3
"""Regenerates /verif/MANIFEST.json from the table below (run after editing)."""
import json
import os

VERIF = os.path.dirname(os.path.dirname(os.path.abspath(__file__)))
ALL = ["C%02d" % i for i in range(1, 21)]

# id -> (technique, level text, level note, design ref)
CLAIMED = {
    "C01": ("property-based testing (Hypothesis op trees incl. mutation from inside event actions) against an "
            "in-executor reference model; libFuzzer structure-aware front end in the thorough tier",
            "Search, not proof: generated histories on the real event queue are compared, after every "
            "operation and inside every action, with an array model ordered by (time, priority, handle); "
            "held on everything explored.",
            "Trusts the reference model in harness/m_event.c, Hypothesis, clang sanitizers; NaN times and "
            "times below the clock are outside the domain.", "DESIGN.md §3 C01"),
    "C02": ("property-based testing (Hypothesis stateful op histories) against an in-executor reference "
            "model; libFuzzer structure-aware front end in the thorough tier",
            "Search, not proof: generated operation histories on the real hashheaps (all four library "
            "orderings plus the default) are cross-checked after every operation against an array model; "
            "held on everything explored.",
            "Trusts the reference model in harness/m_hashheap.c, Hypothesis, clang sanitizers; NaN keys and "
            "key 0 are outside the domain.", "DESIGN.md §3 C02"),
}

SIM_NOTE = ("Trusts the scenario interpreter harness/m_sim.c, the trace oracles in pbt/simtrace.py (soundness rules in "
            "DESIGN.md par. 2.1), Hypothesis and the clang sanitizers; thread-free and deterministic (fork per case, ASLR off).")
SIM_TECH = ("property-based testing: Hypothesis-generated simulation scenarios (processes with scripts + dispatcher "
            "commands, ties on simulated instants by construction) run against the real library; ")
for _pid, _what in {
    "C04": "oracle = ledger of notifications per process (timers must fire, everything else may be delivered once), exact hold times, quiescence predicates",
    "C05": "oracle = holder model from what callers were told vs held_by_process/in_use/available after every event",
    "C06": "oracle = validity predicate over the history: nobody who must not be overtaken is still waiting when a waiter is served",
    "C07": "oracle = per-process holding model (exact after every event, ranges while an acquisition is in flight), victim priority and notification",
    "C08": "oracle = end-of-instant / quiescence predicate: nobody blocked while its demand can be met",
    "C09": "oracle = lifecycle predicates at every process end (waiter codes and timing, holdings, residual events, status, exit value, restart state)",
    "C10": "oracle = how the executor child ended under ASan+UBSan with the shipped assertion level (report, signal, library abort)",
    "C11": "oracle = level == sum(put) - sum(get) counting in-flight partial transfers, after every event",
    "C12": "oracle = sequence / priority-map model of queue contents, exact delivery order, handles, positions",
    "C13": "oracle = harness-evaluated predicate ground truth at explicit, forwarded (signal tap) and post-operation signal points",
    "C14": "oracle = recorded history vs end-of-instant trajectory per recording window; exact Fraction time average",
}.items():
    CLAIMED[_pid] = (SIM_TECH + _what,
                     "Search, not proof: generated scenarios executed against the real code; the property's predicate is "
                     "evaluated on the observed history; held on everything explored.",
                     SIM_NOTE, "DESIGN.md par. 2 and par. 3 " + _pid)

CLAIMED["C03"] = ("property-based testing: Hypothesis-generated coroutine/process programs, every switch issued through a "
                  "nasm probe that loads generated register and MXCSR contents, lockstep reference model in the executor; "
                  "each case on the asan and the gcc -O3 builds",
                  "Search, not proof: generated programs over 2-6 coroutines and main with every switch at a generated "
                  "call depth and register/MXCSR contents; bit-identity of callee-saved registers, MXCSR control bits, "
                  "stack canaries, message delivery, entry arguments and alignment checked; held on everything explored.",
                  "Trusts the reference model in harness/m_coro.c and the probe harness/coro_probe.asm; register contents "
                  "are sampled, x87 control word and rflags are outside the statement.", "DESIGN.md par. 3 C03")

CLAIMED["C17"] = ("property-based testing: Hypothesis-generated sample/weight sequences, splits and merge orders run through the "
                  "real summary API; oracle = exact Fraction statistics with condition-number-aware tolerances, merge == "
                  "concatenation, weight-scale metamorphic relation",
                  "Search, not proof: generated sequences (0-300 samples, offsets, extreme magnitudes, every split/merge order "
                  "and target, empties, weight patterns) compared with exactly computed statistics; held on everything explored.",
                  "Trusts pbt/props/stats_lib.py (exact reference, stated tolerances), harness/m_stats.c, Hypothesis; "
                  "ill-conditioned statistics are excluded and counted, not passed.", "DESIGN.md par. 3 C17")
CLAIMED["C18"] = ("property-based testing: Hypothesis-generated datasets / time series (sizes across the 1024/2048 doublings, "
                  "duplicates, dominating durations, bin counts and ranges, lags) through the real API; oracle = multiset "
                  "comparison, weighted-median inequality, five-number ordering, reference binning, ACF/PACF invariance",
                  "Search, not proof: validity predicates of the property evaluated on generated inputs incl. boundary sweeps "
                  "(fixed cases); held on everything explored.",
                  "Trusts pbt/props/stats_lib.py, harness/m_stats.c, Hypothesis; the documented nearly-constant guard of the "
                  "correlogram is excluded and counted.", "DESIGN.md par. 3 C18")
CLAIMED["C19"] = ("property-based testing + stress: Hypothesis-generated experiments (trial counts around the core count, struct "
                  "sizes, duration mixes, trial kinds incl. full simulations and per-trial functions) run through "
                  "cimba_run_experiment on the asan and rel builds; oracle = per-trial counters, guard words, and bit-identical "
                  "digests vs a sequential single-thread run and vs a same-thread run after other trials",
                  "Search, not proof: schedules are provoked (duration mixes, naps, contention), not controlled; a suspected race "
                  "is replayed up to 20x and otherwise reported as the recorded observation; held on everything explored.",
                  "Trusts harness/m_experiment.c and the digest comparison; thread interleavings are not enumerated.",
                  "DESIGN.md par. 3 C19")
CLAIMED["C20"] = ("property-based testing (Hypothesis alloc/free histories on dynamic and static thread-local pools) against an "
                  "in-executor interval/pattern oracle under ASan; libFuzzer structure-aware front end in the thorough tier",
                  "Search, not proof: histories whose live population crosses chunk boundaries and the 64-chunk list growth; "
                  "alignment, disjointness, content stability and no double hand-out checked after every op; held on everything explored.",
                  "Trusts the oracle in harness/m_mempool.c, ASan, Hypothesis.", "DESIGN.md par. 3 C20")

CLAIMED["C15"] = ("property-based testing: Hypothesis-generated seeds, prefix histories, probe sequences and thread plans; "
                  "oracle = independent Python reference of the documented generator (splitmix64 bootstrap, 20 discards, "
                  "sfc64) and the metamorphic relation 'bits after seeding do not depend on history or thread'",
                  "Search, not proof: every raw output after a seeding is compared bit-exactly with the reference; probe "
                  "sequences are compared across prefix histories, fresh/reused threads and up to 16 concurrent threads "
                  "(schedules provoked, not controlled; a suspected race is replayed up to 20x); held on everything explored.",
                  "Trusts pbt/props/_random_common.py (reference generator), harness/m_random.c; non-raw samplers are "
                  "only compared with themselves.", "DESIGN.md par. 3 C15")
CLAIMED["C16"] = ("property-based testing + statistical testing: Hypothesis-generated parameter vectors biased to documented "
                  "boundaries; oracle = support predicate on every draw (masked and trapping FP environment, draw-count "
                  "hook against non-termination, forced boundary draws) and goodness of fit against scipy (exact KS, "
                  "chi-square on probability-integral-transform bins, moments) with a two-seed confirmation rule",
                  "Search, not proof: support is checked on every generated draw; fit is a statistical test with a stated "
                  "family-wise false-alarm bound and stated power (distortions below ~5e-4 in CDF are below thorough "
                  "power); held on everything explored.",
                  "Trusts scipy/numpy distributions, pbt/props/_random_common.py, harness/m_random.c and the guarded draw "
                  "hook in cmb_random.c.", "DESIGN.md par. 3 C16")

NOT_YET = "check not built yet in this session (work in progress; see DESIGN.md §3 for the planned check)"


def main():
    checks = []
    for pid in ALL:
        if pid not in CLAIMED:
            continue
        tech, text, note, ref = CLAIMED[pid]
        checks.append({
            "property_id": pid,
            "quick_cmd": "./check %s --tier quick" % pid,
            "thorough_cmd": "./check %s --tier thorough" % pid,
            "evidence_file": "/verif/evidence/%s.json" % pid,
            "replay_cmd_template": "./check replay %s {path}" % pid,
            "engine": "pbt",
            "level_claimed": {"category": "exploration", "text": text, "design_ref": ref},
            "level_note": note,
            "technique": tech,
        })
    man = {
        "version": 1,
        "setup_cmd": "./setup.sh",
        "hooks": {
            "guard": "CIMBA_VERIF",
            "enable": "pbt/build.py compiles /repo's working tree directly with -DCIMBA_VERIF "
                      "(clang -fsanitize=address,undefined for the 'asan' variant, gcc -O3 for 'rel')",
            "baseline_off_cmd": "meson test -C /repo/_build",
            "source_commits": json.load(open(os.path.join(VERIF, "tools", "hook_commits.json"))),
            "add_only": True,
        },
        "engines": [
            {"name": "pbt", "path": "/verif/pbt",
             "serves_properties": sorted(CLAIMED),
             "kind_free_text": "Hypothesis (python3-vt) generators + shrinking driving the C executor "
                               "harness/cimx (fork per case, ASan+UBSan build of /repo's working tree); "
                               "libFuzzer front ends in the thorough tier for C01/C02/C20"},
        ],
        "checks": checks,
        "not_applicable": [{"property_id": p, "reason": NOT_YET} for p in ALL if p not in CLAIMED],
        "notes": "All checks rebuild libcimba from /repo's current working tree (cache keyed by content hash "
                 "under /verif/build). VERIF_SEED selects the Hypothesis seeds; 0/unset maps to a fixed "
                 "constant. Exit 0 = held on everything explored, 1 = VIOLATION line printed, 2 = machinery "
                 "error (no verdict).",
    }
    with open(os.path.join(VERIF, "MANIFEST.json"), "w") as fh:
        json.dump(man, fh, indent=1)
        fh.write("\n")


if __name__ == "__main__":
    main()
