/*
 * m_stats.c - executor mode "stats" (properties C17 and C18).
 *
 * The case text is a tiny program over the REAL statistics API of cimba
 * (cmb_datasummary_*, cmb_wtdsummary_*, cmb_dataset_*, cmb_timeseries_* and, for
 * the bin contents of a histogram, the library-internal cmi_dataset_histogram_*
 * helpers declared in src/cmi_dataset.h). There is NO oracle in here: every
 * accessor result is printed as a C hex float, every text report is captured
 * with open_memstream() and echoed, and pbt/props/stats_lib.py judges the trace
 * against exact rational arithmetic.
 *
 * Pool lines (append doubles to the value pool P):
 *   p <hex> <hex> ...
 *   ppat n a b c m off sc      P += ldexp(((a*i*i + b*i + c) mod m) + off, sc), i = 0..n-1
 *
 * Command lines (numbered 0,1,2,... in order of appearance; answer lines carry
 * the number):  S = summary slot, W = weighted summary slot, D = dataset slot,
 * T = timeseries slot (all slots exist and are initialised at start)
 *   sum.add S i n            cmb_datasummary_add(P[i..i+n))
 *   sum.merge St Sa Sb       cmb_datasummary_merge
 *   sum.get S | sum.reset S | sum.print S lead
 *   ws.add W xi wi n e skipz cmb_wtdsummary_add(P[xi+j], ldexp(P[wi+j], e)); skipz=1: the
 *                            executor itself leaves out the samples with weight 0
 *   ws.merge Wt Wa Wb | ws.get W | ws.reset W | ws.print W lead
 *   ds.add D i n e b         cmb_dataset_add(ldexp(P[i+j], e) + b)
 *   ds.sort D | ds.copy Dt Ds | ds.dump D | ds.median D | ds.fivenum D lead
 *   ds.hist D nb lo hi       cmb_dataset_histogram_print (text)
 *   ds.hfill D nb lo hi      cmi_dataset_histogram_create/fill/print (bins + text)
 *   ds.summ D S | ds.acf D n | ds.pacf D n given | ds.reset D
 *   ts.add T xi ti n         cmb_timeseries_add(P[xi+j], P[ti+j])
 *   ts.fin T t | ts.sortx T | ts.sortt T | ts.copy Tt Ts | ts.dump T | ts.median T
 *   ts.fivenum T lead | ts.hist T nb lo hi | ts.summ T W | ts.acf T n | ts.pacf T n given
 *   ts.dsmedian T | ts.dsfivenum T lead | ts.dshist T nb lo hi   (the parent-class calls
 *                            the header recommends for unweighted results) | ts.reset T
 *
 * Answer lines:  R <cmd#> <name> <fields>   results (hex floats / integers)
 *                V <cmd#> <x|t|w|a|p|h> <hex> ...   array contents in chunks
 *                T <cmd#> |<one line of captured report text>
 *                S <cmd#> <reason>          command skipped: documented precondition unmet
 */
#include <float.h>
#include <inttypes.h>
#include <math.h>
#include <stdlib.h>
#include <string.h>

#include "cmb_dataset.h"
#include "cmb_datasummary.h"
#include "cmb_logger.h"
#include "cmb_timeseries.h"
#include "cmb_wtdsummary.h"
#include "cmi_dataset.h"

#include "cimx.h"

#define NSUM 16
#define NWS 16
#define NDS 6
#define NTS 6
#define POOL_MAX (1u << 20)
#define MAXTOK 4096

static double *pool;
static size_t npool;

static struct cmb_datasummary sums[NSUM];
static struct cmb_wtdsummary wss[NWS];
static struct cmb_dataset *dss[NDS];
static struct cmb_timeseries *tss[NTS];

static int bad(FILE *trace, const char *why, const char *line)
{
    fprintf(trace, "F parse: %s: %s\n", why, line ? line : "");
    return CIMX_PARSE_ERROR;
}

static void put_array(FILE *trace, const long idx, const char tag, const uint64_t n, const double *a)
{
    for (uint64_t i = 0; i < n; i += 64) {
        fprintf(trace, "V %ld %c", idx, tag);
        for (uint64_t j = i; j < n && j < i + 64; j++) {
            fprintf(trace, " %a", a[j]);
        }
        fputc('\n', trace);
    }
}

/* echo captured text, one "T idx |line" per line */
static void put_text(FILE *trace, const long idx, char *buf, const size_t len)
{
    size_t start = 0;
    for (size_t i = 0; i < len; i++) {
        if (buf[i] == '\n') {
            buf[i] = '\0';
            fprintf(trace, "T %ld |%s\n", idx, buf + start);
            start = i + 1;
        }
    }
    if (start < len) {
        fprintf(trace, "T %ld |%s\n", idx, buf + start);
    }
}

static int slot(const char *s, const int lim)
{
    char *end = NULL;
    const long v = strtol(s, &end, 10);
    if (end == s || *end != '\0' || v < 0 || v >= lim) {
        return -1;
    }
    return (int)v;
}

static int range_ok(const int64_t i, const int64_t n)
{
    return i >= 0 && n >= 0 && (uint64_t)i + (uint64_t)n <= npool;
}

static void put_summary(FILE *trace, const long idx, const char *name,
                        const struct cmb_datasummary *dsp)
{
    fprintf(trace, "R %ld %s %" PRIu64 " %a %a %a %a %a %a %a\n", idx, name,
            cmb_datasummary_count(dsp), cmb_datasummary_min(dsp), cmb_datasummary_max(dsp),
            cmb_datasummary_mean(dsp), cmb_datasummary_variance(dsp),
            cmb_datasummary_stddev(dsp), cmb_datasummary_skewness(dsp),
            cmb_datasummary_kurtosis(dsp));
}

int mode_stats(char *text, FILE *trace)
{
    cmb_logger_flags_off(CMB_LOGGER_INFO | CMB_LOGGER_WARNING);
    pool = malloc(POOL_MAX * sizeof *pool);
    npool = 0;
    for (int i = 0; i < NSUM; i++) cmb_datasummary_initialize(&sums[i]);
    for (int i = 0; i < NWS; i++) cmb_wtdsummary_initialize(&wss[i]);
    for (int i = 0; i < NDS; i++) dss[i] = cmb_dataset_create();
    for (int i = 0; i < NTS; i++) tss[i] = cmb_timeseries_create();

    static char *tok[MAXTOK];
    char *cursor = text;
    char *line;
    long idx = -1;
    while ((line = cimx_next_line(&cursor)) != NULL) {
        const int nt = cimx_split(line, tok, MAXTOK);
        if (nt == 0) continue;
        const char *c = tok[0];

        /* ---- pool ---- */
        if (strcmp(c, "p") == 0) {
            for (int i = 1; i < nt; i++) {
                if (npool >= POOL_MAX) return bad(trace, "pool overflow", c);
                pool[npool++] = cimx_dbl(tok[i]);
            }
            continue;
        }
        if (strcmp(c, "ppat") == 0) {
            if (nt != 8) return bad(trace, "ppat args", c);
            const int64_t n = cimx_i64(tok[1]), a = cimx_i64(tok[2]), b = cimx_i64(tok[3]),
                          cc = cimx_i64(tok[4]), m = cimx_i64(tok[5]), off = cimx_i64(tok[6]),
                          sc = cimx_i64(tok[7]);
            if (n < 0 || m <= 0 || npool + (size_t)n > POOL_MAX) return bad(trace, "ppat range", c);
            for (int64_t i = 0; i < n; i++) {
                const int64_t v = ((a * i * i + b * i + cc) % m) + off;
                pool[npool++] = ldexp((double)v, (int)sc);
            }
            continue;
        }

        idx++;
        /* ---- unweighted summary ---- */
        if (strcmp(c, "sum.add") == 0 && nt == 4) {
            const int s = slot(tok[1], NSUM);
            const int64_t i0 = cimx_i64(tok[2]), n = cimx_i64(tok[3]);
            if (s < 0 || !range_ok(i0, n)) return bad(trace, "sum.add", c);
            uint64_t r = cmb_datasummary_count(&sums[s]);
            for (int64_t j = 0; j < n; j++) r = cmb_datasummary_add(&sums[s], pool[i0 + j]);
            fprintf(trace, "R %ld sum.add %" PRIu64 "\n", idx, r);
        }
        else if (strcmp(c, "sum.merge") == 0 && nt == 4) {
            const int t = slot(tok[1], NSUM), a = slot(tok[2], NSUM), b = slot(tok[3], NSUM);
            if (t < 0 || a < 0 || b < 0) return bad(trace, "sum.merge", c);
            const uint64_t r = cmb_datasummary_merge(&sums[t], &sums[a], &sums[b]);
            fprintf(trace, "R %ld sum.merge %" PRIu64 "\n", idx, r);
        }
        else if (strcmp(c, "sum.get") == 0 && nt == 2) {
            const int s = slot(tok[1], NSUM);
            if (s < 0) return bad(trace, "sum.get", c);
            put_summary(trace, idx, "sum.get", &sums[s]);
        }
        else if (strcmp(c, "sum.reset") == 0 && nt == 2) {
            const int s = slot(tok[1], NSUM);
            if (s < 0) return bad(trace, "sum.reset", c);
            cmb_datasummary_reset(&sums[s]);
            fprintf(trace, "R %ld sum.reset\n", idx);
        }
        else if ((strcmp(c, "sum.print") == 0 || strcmp(c, "ws.print") == 0) && nt == 3) {
            const int isw = (c[0] == 'w');
            const int s = slot(tok[1], isw ? NWS : NSUM);
            if (s < 0) return bad(trace, "print", c);
            char *buf = NULL; size_t len = 0;
            FILE *ms = open_memstream(&buf, &len);
            if (isw) cmb_wtdsummary_print(&wss[s], ms, cimx_i64(tok[2]) != 0);
            else cmb_datasummary_print(&sums[s], ms, cimx_i64(tok[2]) != 0);
            fclose(ms);
            fprintf(trace, "R %ld %s\n", idx, c);
            put_text(trace, idx, buf, len);
            free(buf);
        }
        /* ---- weighted summary ---- */
        else if (strcmp(c, "ws.add") == 0 && nt == 7) {
            const int s = slot(tok[1], NWS);
            const int64_t xi = cimx_i64(tok[2]), wi = cimx_i64(tok[3]), n = cimx_i64(tok[4]);
            const int e = (int)cimx_i64(tok[5]);
            const int skipz = (int)cimx_i64(tok[6]);
            if (s < 0 || !range_ok(xi, n) || !range_ok(wi, n)) return bad(trace, "ws.add", c);
            uint64_t r = cmb_wtdsummary_count(&wss[s]);
            for (int64_t j = 0; j < n; j++) {
                const double w = ldexp(pool[wi + j], e);
                if (!(w >= 0.0) || !isfinite(w)) return bad(trace, "ws.add weight", c);
                if (skipz && w == 0.0) continue;
                r = cmb_wtdsummary_add(&wss[s], pool[xi + j], w);
            }
            fprintf(trace, "R %ld ws.add %" PRIu64 "\n", idx, r);
        }
        else if (strcmp(c, "ws.merge") == 0 && nt == 4) {
            const int t = slot(tok[1], NWS), a = slot(tok[2], NWS), b = slot(tok[3], NWS);
            if (t < 0 || a < 0 || b < 0) return bad(trace, "ws.merge", c);
            const uint64_t r = cmb_wtdsummary_merge(&wss[t], &wss[a], &wss[b]);
            fprintf(trace, "R %ld ws.merge %" PRIu64 "\n", idx, r);
        }
        else if (strcmp(c, "ws.get") == 0 && nt == 2) {
            const int s = slot(tok[1], NWS);
            if (s < 0) return bad(trace, "ws.get", c);
            const struct cmb_wtdsummary *w = &wss[s];
            fprintf(trace, "R %ld ws.get %" PRIu64 " %a %a %a %a %a %a %a\n", idx,
                    cmb_wtdsummary_count(w), cmb_wtdsummary_min(w), cmb_wtdsummary_max(w),
                    cmb_wtdsummary_mean(w), cmb_wtdsummary_variance(w),
                    cmb_wtdsummary_stddev(w), cmb_wtdsummary_skewness(w),
                    cmb_wtdsummary_kurtosis(w));
        }
        else if (strcmp(c, "ws.reset") == 0 && nt == 2) {
            const int s = slot(tok[1], NWS);
            if (s < 0) return bad(trace, "ws.reset", c);
            cmb_wtdsummary_reset(&wss[s]);
            fprintf(trace, "R %ld ws.reset\n", idx);
        }
        /* ---- dataset / timeseries: building ---- */
        else if (strcmp(c, "ds.add") == 0 && nt == 6) {
            const int d = slot(tok[1], NDS);
            const int64_t i0 = cimx_i64(tok[2]), n = cimx_i64(tok[3]);
            const int e = (int)cimx_i64(tok[4]);
            const double b = cimx_dbl(tok[5]);
            if (d < 0 || !range_ok(i0, n)) return bad(trace, "ds.add", c);
            uint64_t r = cmb_dataset_count(dss[d]);
            for (int64_t j = 0; j < n; j++) {
                /* volatile: no contraction of the two operations into an fma */
                volatile double y = ldexp(pool[i0 + j], e);
                y = y + b;
                r = cmb_dataset_add(dss[d], y);
            }
            fprintf(trace, "R %ld ds.add %" PRIu64 "\n", idx, r);
        }
        else if (strcmp(c, "ts.add") == 0 && nt == 5) {
            const int d = slot(tok[1], NTS);
            const int64_t xi = cimx_i64(tok[2]), ti = cimx_i64(tok[3]), n = cimx_i64(tok[4]);
            if (d < 0 || !range_ok(xi, n) || !range_ok(ti, n)) return bad(trace, "ts.add", c);
            uint64_t r = cmb_timeseries_count(tss[d]);
            for (int64_t j = 0; j < n; j++) {
                /* documented use: time stamps do not decrease */
                if (r > 0 && !(tss[d]->ta[r - 1] <= pool[ti + j])) return bad(trace, "ts.add time order", c);
                r = cmb_timeseries_add(tss[d], pool[xi + j], pool[ti + j]);
            }
            fprintf(trace, "R %ld ts.add %" PRIu64 "\n", idx, r);
        }
        else if (strcmp(c, "ts.fin") == 0 && nt == 3) {
            const int d = slot(tok[1], NTS);
            if (d < 0) return bad(trace, "ts.fin", c);
            const double t = cimx_dbl(tok[2]);
            const uint64_t n = cmb_timeseries_count(tss[d]);
            if (n == 0 || !(tss[d]->ta[n - 1] <= t)) {
                fprintf(trace, "S %ld finalize needs a last sample not later than t\n", idx);
            }
            else {
                const uint64_t r = cmb_timeseries_finalize(tss[d], t);
                fprintf(trace, "R %ld ts.fin %" PRIu64 "\n", idx, r);
            }
        }
        else if ((strcmp(c, "ds.reset") == 0 || strcmp(c, "ts.reset") == 0) && nt == 2) {
            const int ist = (c[0] == 't');
            const int d = slot(tok[1], ist ? NTS : NDS);
            if (d < 0) return bad(trace, "reset", c);
            if (ist) cmb_timeseries_reset(tss[d]); else cmb_dataset_reset(dss[d]);
            fprintf(trace, "R %ld %s\n", idx, c);
        }
        /* ---- sort / copy / dump ---- */
        else if (strcmp(c, "ds.sort") == 0 && nt == 2) {
            const int d = slot(tok[1], NDS);
            if (d < 0) return bad(trace, "ds.sort", c);
            cmb_dataset_sort(dss[d]);
            fprintf(trace, "R %ld ds.sort\n", idx);
        }
        else if ((strcmp(c, "ts.sortx") == 0 || strcmp(c, "ts.sortt") == 0) && nt == 2) {
            const int d = slot(tok[1], NTS);
            if (d < 0) return bad(trace, "ts.sort", c);
            if (c[7] == 'x') cmb_timeseries_sort_x(tss[d]); else cmb_timeseries_sort_t(tss[d]);
            fprintf(trace, "R %ld %s\n", idx, c);
        }
        else if (strcmp(c, "ds.copy") == 0 && nt == 3) {
            const int t = slot(tok[1], NDS), s = slot(tok[2], NDS);
            if (t < 0 || s < 0 || t == s) return bad(trace, "ds.copy", c);
            const uint64_t r = cmb_dataset_copy(dss[t], dss[s]);
            fprintf(trace, "R %ld ds.copy %" PRIu64 "\n", idx, r);
        }
        else if (strcmp(c, "ts.copy") == 0 && nt == 3) {
            const int t = slot(tok[1], NTS), s = slot(tok[2], NTS);
            if (t < 0 || s < 0 || t == s) return bad(trace, "ts.copy", c);
            const uint64_t r = cmb_timeseries_copy(tss[t], tss[s]);
            fprintf(trace, "R %ld ts.copy %" PRIu64 "\n", idx, r);
        }
        else if (strcmp(c, "ds.dump") == 0 && nt == 2) {
            const int d = slot(tok[1], NDS);
            if (d < 0) return bad(trace, "ds.dump", c);
            const struct cmb_dataset *p = dss[d];
            fprintf(trace, "R %ld ds.dump %" PRIu64 " %a %a %" PRIu64 "\n", idx,
                    cmb_dataset_count(p), cmb_dataset_min(p), cmb_dataset_max(p), p->cursize);
            put_array(trace, idx, 'x', p->count, p->xa);
        }
        else if (strcmp(c, "ts.dump") == 0 && nt == 2) {
            const int d = slot(tok[1], NTS);
            if (d < 0) return bad(trace, "ts.dump", c);
            const struct cmb_timeseries *p = tss[d];
            fprintf(trace, "R %ld ts.dump %" PRIu64 " %a %a %" PRIu64 "\n", idx,
                    cmb_timeseries_count(p), cmb_timeseries_min(p), cmb_timeseries_max(p),
                    p->ds.cursize);
            put_array(trace, idx, 'x', p->ds.count, p->ds.xa);
            put_array(trace, idx, 't', p->ds.count, p->ta);
            put_array(trace, idx, 'w', p->ds.count, p->wa);
        }
        /* ---- medians and five-number summaries ---- */
        else if ((strcmp(c, "ds.median") == 0 || strcmp(c, "ts.dsmedian") == 0) && nt == 2) {
            const int ist = (c[0] == 't');
            const int d = slot(tok[1], ist ? NTS : NDS);
            if (d < 0) return bad(trace, "median", c);
            const struct cmb_dataset *p = ist ? (struct cmb_dataset *)tss[d] : dss[d];
            if (p->count == 0) fprintf(trace, "S %ld empty\n", idx);
            else fprintf(trace, "R %ld %s %a\n", idx, c, cmb_dataset_median(p));
        }
        else if (strcmp(c, "ts.median") == 0 && nt == 2) {
            const int d = slot(tok[1], NTS);
            if (d < 0) return bad(trace, "ts.median", c);
            if (tss[d]->ds.count == 0) fprintf(trace, "S %ld empty\n", idx);
            else fprintf(trace, "R %ld ts.median %a\n", idx, cmb_timeseries_median(tss[d]));
        }
        else if ((strcmp(c, "ds.fivenum") == 0 || strcmp(c, "ts.dsfivenum") == 0
                  || strcmp(c, "ts.fivenum") == 0) && nt == 3) {
            const int ist = (c[0] == 't');
            const int d = slot(tok[1], ist ? NTS : NDS);
            if (d < 0) return bad(trace, "fivenum", c);
            const struct cmb_dataset *p = ist ? (struct cmb_dataset *)tss[d] : dss[d];
            if (p->count == 0) { fprintf(trace, "S %ld empty\n", idx); continue; }
            char *buf = NULL; size_t len = 0;
            FILE *ms = open_memstream(&buf, &len);
            if (strcmp(c, "ts.fivenum") == 0) cmb_timeseries_fivenum_print(tss[d], ms, cimx_i64(tok[2]) != 0);
            else cmb_dataset_fivenum_print(p, ms, cimx_i64(tok[2]) != 0);
            fclose(ms);
            fprintf(trace, "R %ld %s\n", idx, c);
            put_text(trace, idx, buf, len);
            free(buf);
        }
        /* ---- histograms ---- */
        else if ((strcmp(c, "ds.hist") == 0 || strcmp(c, "ts.dshist") == 0
                  || strcmp(c, "ts.hist") == 0) && nt == 5) {
            const int ist = (c[0] == 't');
            const int d = slot(tok[1], ist ? NTS : NDS);
            const int64_t nb = cimx_i64(tok[2]);
            const double lo = cimx_dbl(tok[3]), hi = cimx_dbl(tok[4]);
            if (d < 0) return bad(trace, "hist", c);
            const struct cmb_dataset *p = ist ? (struct cmb_dataset *)tss[d] : dss[d];
            const int wtd = (strcmp(c, "ts.hist") == 0);
            if (p->count == 0 || nb <= 0 || !(hi >= lo) || (wtd && nb > 65535) || nb > 4000000) {
                fprintf(trace, "S %ld precondition\n", idx);
                continue;
            }
            char *buf = NULL; size_t len = 0;
            FILE *ms = open_memstream(&buf, &len);
            if (wtd) cmb_timeseries_histogram_print(tss[d], ms, (uint16_t)nb, lo, hi);
            else cmb_dataset_histogram_print(p, ms, (unsigned)nb, lo, hi);
            fclose(ms);
            fprintf(trace, "R %ld %s\n", idx, c);
            put_text(trace, idx, buf, len);
            free(buf);
        }
        else if (strcmp(c, "ds.hfill") == 0 && nt == 5) {
            const int d = slot(tok[1], NDS);
            const int64_t nb = cimx_i64(tok[2]);
            const double lo = cimx_dbl(tok[3]), hi = cimx_dbl(tok[4]);
            if (d < 0) return bad(trace, "ds.hfill", c);
            const struct cmb_dataset *p = dss[d];
            if (p->count == 0 || nb <= 0 || nb > 60000 || !(hi > lo)) {
                fprintf(trace, "S %ld precondition\n", idx);
                continue;
            }
            struct cmi_dataset_histogram *hp = cmi_dataset_histogram_create((unsigned)nb, lo, hi);
            cmi_dataset_histogram_fill(hp, p->count, p->xa);
            fprintf(trace, "R %ld ds.hfill %u %a %a\n", idx, hp->num_bins, hp->binsize, hp->binmax);
            put_array(trace, idx, 'h', hp->num_bins, hp->hbins);
            char *buf = NULL; size_t len = 0;
            FILE *ms = open_memstream(&buf, &len);
            cmi_dataset_histogram_print(hp, ms);
            fclose(ms);
            put_text(trace, idx, buf, len);
            free(buf);
            cmi_dataset_histogram_destroy(hp);
        }
        /* ---- summaries of collected data ---- */
        else if (strcmp(c, "ds.summ") == 0 && nt == 3) {
            const int d = slot(tok[1], NDS), s = slot(tok[2], NSUM);
            if (d < 0 || s < 0) return bad(trace, "ds.summ", c);
            const uint64_t r = cmb_dataset_summarize(dss[d], &sums[s]);
            fprintf(trace, "R %ld ds.summ %" PRIu64 "\n", idx, r);
        }
        else if (strcmp(c, "ts.summ") == 0 && nt == 3) {
            const int d = slot(tok[1], NTS), s = slot(tok[2], NWS);
            if (d < 0 || s < 0) return bad(trace, "ts.summ", c);
            if (tss[d]->ds.count == 0) { fprintf(trace, "S %ld empty\n", idx); continue; }
            const uint64_t r = cmb_timeseries_summarize(tss[d], &wss[s]);
            fprintf(trace, "R %ld ts.summ %" PRIu64 "\n", idx, r);
        }
        /* ---- correlograms ---- */
        else if ((strcmp(c, "ds.acf") == 0 || strcmp(c, "ts.acf") == 0) && nt == 3) {
            const int ist = (c[0] == 't');
            const int d = slot(tok[1], ist ? NTS : NDS);
            const int64_t n = cimx_i64(tok[2]);
            if (d < 0) return bad(trace, "acf", c);
            const uint64_t cnt = ist ? cmb_timeseries_count(tss[d]) : cmb_dataset_count(dss[d]);
            if (cnt < 2 || n < 1 || (uint64_t)n >= cnt || n > 65535) {
                fprintf(trace, "S %ld precondition\n", idx);
                continue;
            }
            double *acf = malloc(((size_t)n + 1) * sizeof *acf);
            for (int64_t j = 0; j <= n; j++) acf[j] = -77.0;
            if (ist) cmb_timeseries_ACF(tss[d], (uint16_t)n, acf);
            else cmb_dataset_ACF(dss[d], (unsigned)n, acf);
            fprintf(trace, "R %ld %s %" PRId64 "\n", idx, c, n);
            put_array(trace, idx, 'a', (uint64_t)n + 1, acf);
            free(acf);
        }
        else if ((strcmp(c, "ds.pacf") == 0 || strcmp(c, "ts.pacf") == 0) && nt == 4) {
            const int ist = (c[0] == 't');
            const int d = slot(tok[1], ist ? NTS : NDS);
            const int64_t n = cimx_i64(tok[2]);
            const int given = (int)cimx_i64(tok[3]);
            if (d < 0) return bad(trace, "pacf", c);
            const uint64_t cnt = ist ? cmb_timeseries_count(tss[d]) : cmb_dataset_count(dss[d]);
            if (cnt < 3 || n < 1 || (uint64_t)n >= cnt - 1 || n > 2000) {
                fprintf(trace, "S %ld precondition\n", idx);
                continue;
            }
            double *acf = malloc(((size_t)n + 1) * sizeof *acf);
            double *pacf = malloc(((size_t)n + 1) * sizeof *pacf);
            for (int64_t j = 0; j <= n; j++) { acf[j] = -77.0; pacf[j] = -77.0; }
            if (ist) {
                cmb_timeseries_ACF(tss[d], (uint16_t)n, acf);
                cmb_timeseries_PACF(tss[d], (uint16_t)n, pacf, given ? acf : NULL);
            }
            else {
                cmb_dataset_ACF(dss[d], (unsigned)n, acf);
                cmb_dataset_PACF(dss[d], (unsigned)n, pacf, given ? acf : NULL);
            }
            fprintf(trace, "R %ld %s %" PRId64 "\n", idx, c, n);
            put_array(trace, idx, 'a', (uint64_t)n + 1, acf);
            put_array(trace, idx, 'p', (uint64_t)n + 1, pacf);
            free(acf);
            free(pacf);
        }
        else {
            return bad(trace, "unknown command or wrong argument count", c);
        }
    }

    for (int i = 0; i < NDS; i++) cmb_dataset_destroy(dss[i]);
    for (int i = 0; i < NTS; i++) cmb_timeseries_destroy(tss[i]);
    free(pool);
    fprintf(trace, "N cmds=%ld pool=%zu\n", idx + 1, npool);
    return CIMX_OK;
}
