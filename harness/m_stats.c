/* placeholder, replaced when the mode is implemented */
#include "cimx.h"
int mode_stats(char *text, FILE *trace) { (void)text; fprintf(trace, "F mode stats not implemented\n"); return CIMX_PARSE_ERROR; }
