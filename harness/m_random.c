/*
 * m_random.c - cimx mode "random": drives the REAL samplers of cmb_random.[ch]
 * (properties C15 and C16) and reports bit patterns; every judgement is made in
 * Python (pbt/props/c15.py, c16.py).
 *
 * Case grammar (one directive per line, '#' comments):
 *
 *   fp masked|trap            FP environment of every sampling thread. "trap" sets
 *                             MXCSR 0x1d00 (invalid-op and div-by-zero UNMASKED),
 *                             exactly what cimba_run_experiment() puts on a trial
 *                             thread and what every cimba process runs with.
 *   aliasfp masked|trap       FP environment while alias tables are created (default masked)
 *   budget <n>                raw 64-bit draws one sampler CALL may consume before
 *                             it is abandoned by longjmp (needs hook 2; default 1e6)
 *   variant <name>            ignored here (tell the Python side which build to use and
 *   check <kind>              which oracle to apply)
 *   vec <name> <x>...         a double array of exactly that many elements (own
 *                             malloc block, so an index == n is an ASan report)
 *   alias <name> <vec>        cmb_random_alias_create(len, vec)
 *   segment <plan>            plan = main | fresh | reuse ; starts a new segment:
 *                             the ops that follow run in the main thread / a new
 *                             pthread / the persistent worker thread
 *   conc-begin <rounds>       the segments up to conc-end run SIMULTANEOUSLY, each in
 *   conc-end                  a new pthread released by a barrier; repeated <rounds> x
 *   seed <u64>                cmb_random_initialize
 *   terminate                 cmb_random_terminate
 *   call|emit|dig|hist|bins <count> <sampler> <args>... [force=<pos>:<hex>] [edges=<vec>]
 *        call: outputs dropped; emit: all outputs as bit patterns; dig: FNV-1a digest
 *        and the first 8 outputs; hist: value:count table (integer samplers); bins: counts
 *        of the outputs between the increasing edges of <vec> (count[i] = #{edges[i-1] <= x <
 *        edges[i]}), number of NaNs, min, max, sum and sum of squares (long double)
 *        force=: raw draw number <pos> (0-based) of EVERY call of this op is replaced by
 *        the given value; all other draws stay natural (boundary probing through hook 2:
 *        one particular 64-bit output at one position is reachable, a chosen run of
 *        several outputs need not be)
 *
 * Trace lines:
 *   B <seg> <op>                          about to run op (flushed; names the op a crash hit)
 *   o|d|h <seg> <round> <op> <sampler> calls=<n> draws=<n> max=<n> one=<n> : payload
 *   X <seg> <round> <op> <sampler> call=<k> draws=<n>    draw budget exceeded, case abandoned
 *   I hook=<0|1>
 */
#include <errno.h>
#include <inttypes.h>
#include <math.h>
#include <pthread.h>
#include <setjmp.h>
#include <stdlib.h>
#include <string.h>
#include <xmmintrin.h>

#include "cmb_random.h"

#include "cimx.h"

/* hook 2 (src/cmb_random.c under CIMBA_VERIF); weak so that a tree without it links */
extern void (*cmi_verif_draw_hook)(uint64_t *draw) __attribute__((weak));

#define MAXTOK 700
#define MAXVEC 64
#define MAXOPS 4096
#define MAXSEG 256

enum { OUT_D = 'd', OUT_I = 'i', OUT_U = 'u' };

enum sid {
    S_SFC64, S_CURSEED, S_RANDOM, S_UNIFORM, S_TRIANGULAR, S_STD_NORMAL, S_NORMAL, S_LOGNORMAL,
    S_LOGISTIC, S_CAUCHY, S_STD_EXPONENTIAL, S_EXPONENTIAL, S_ERLANG, S_HYPOEXPONENTIAL,
    S_HYPEREXPONENTIAL, S_STD_GAMMA, S_GAMMA, S_STD_BETA, S_BETA, S_PERT_MOD, S_PERT, S_WEIBULL,
    S_PARETO, S_CHISQUARED, S_F_DIST, S_STD_T_DIST, S_T_DIST, S_RAYLEIGH, S_FLIP, S_BERNOULLI,
    S_GEOMETRIC, S_BINOMIAL, S_NEGATIVE_BINOMIAL, S_PASCAL, S_POISSON, S_DICE, S_LOADED_DICE,
    S_ALIAS_SAMPLE, S_COUNT
};

static const struct { const char *name; const char *sig; char out; } samplers[S_COUNT] = {
    [S_SFC64] = { "sfc64", "", OUT_U },
    [S_CURSEED] = { "curseed", "", OUT_U },
    [S_RANDOM] = { "random", "", OUT_D },
    [S_UNIFORM] = { "uniform", "dd", OUT_D },
    [S_TRIANGULAR] = { "triangular", "ddd", OUT_D },
    [S_STD_NORMAL] = { "std_normal", "", OUT_D },
    [S_NORMAL] = { "normal", "dd", OUT_D },
    [S_LOGNORMAL] = { "lognormal", "dd", OUT_D },
    [S_LOGISTIC] = { "logistic", "dd", OUT_D },
    [S_CAUCHY] = { "cauchy", "dd", OUT_D },
    [S_STD_EXPONENTIAL] = { "std_exponential", "", OUT_D },
    [S_EXPONENTIAL] = { "exponential", "d", OUT_D },
    [S_ERLANG] = { "erlang", "ud", OUT_D },
    [S_HYPOEXPONENTIAL] = { "hypoexponential", "v", OUT_D },
    [S_HYPEREXPONENTIAL] = { "hyperexponential", "vv", OUT_D },
    [S_STD_GAMMA] = { "std_gamma", "d", OUT_D },
    [S_GAMMA] = { "gamma", "dd", OUT_D },
    [S_STD_BETA] = { "std_beta", "dd", OUT_D },
    [S_BETA] = { "beta", "dddd", OUT_D },
    [S_PERT_MOD] = { "PERT_mod", "dddd", OUT_D },
    [S_PERT] = { "PERT", "ddd", OUT_D },
    [S_WEIBULL] = { "weibull", "dd", OUT_D },
    [S_PARETO] = { "pareto", "dd", OUT_D },
    [S_CHISQUARED] = { "chisquared", "d", OUT_D },
    [S_F_DIST] = { "F_dist", "dd", OUT_D },
    [S_STD_T_DIST] = { "std_t_dist", "d", OUT_D },
    [S_T_DIST] = { "t_dist", "ddd", OUT_D },
    [S_RAYLEIGH] = { "rayleigh", "d", OUT_D },
    [S_FLIP] = { "flip", "", OUT_I },
    [S_BERNOULLI] = { "bernoulli", "d", OUT_I },
    [S_GEOMETRIC] = { "geometric", "d", OUT_I },
    [S_BINOMIAL] = { "binomial", "ud", OUT_I },
    [S_NEGATIVE_BINOMIAL] = { "negative_binomial", "ud", OUT_I },
    [S_PASCAL] = { "pascal", "ud", OUT_I },
    [S_POISSON] = { "poisson", "d", OUT_I },
    [S_DICE] = { "dice", "ll", OUT_I },
    [S_LOADED_DICE] = { "loaded_dice", "v", OUT_I },
    [S_ALIAS_SAMPLE] = { "alias_sample", "a", OUT_I },
};

struct vec { char name[24]; unsigned n; double *x; struct cmb_random_alias *alias; };

enum { OP_SEED, OP_TERMINATE, OP_CALL };
enum { M_CALL, M_EMIT, M_DIG, M_HIST, M_BINS };

struct op {
    int kind, mode, sampler;
    uint64_t count, seed;
    double d[4];
    uint64_t u[2];
    long l[2];
    int v[2];
    int force_pos;          /* -1: none */
    uint64_t force_val;
    int edges;              /* M_BINS: index of the vector of bin edges */
};

enum { P_MAIN, P_FRESH, P_REUSE };

struct segment { int plan, group, rounds; int first, nops; };

struct out { char *p; size_t n, cap; };

static struct vec vecs[MAXVEC];
static int nvec;
static struct op ops[MAXOPS];
static int nops;
static struct segment segs[MAXSEG];
static int nseg;
static int fp_trap, alias_trap;
static uint64_t draw_budget = 1000000u;
static FILE *g_trace;
static pthread_mutex_t trace_mx = PTHREAD_MUTEX_INITIALIZER;
static volatile int abandoned;

/* per-thread hook state */
static _Thread_local uint64_t t_draws;
static _Thread_local int t_force_pos = -1;
static _Thread_local uint64_t t_force_val;
static _Thread_local jmp_buf *t_jmp;

static void draw_hook(uint64_t *draw)
{
    const uint64_t k = t_draws++;
    if ((int64_t)k == t_force_pos) {
        *draw = t_force_val;
    }
    if (t_draws > draw_budget && t_jmp != NULL) {
        longjmp(*t_jmp, 1);
    }
}

static void out_add(struct out *b, const char *s, const size_t n)
{
    if (b->n + n + 1 > b->cap) {
        while (b->n + n + 1 > b->cap) b->cap = b->cap ? b->cap * 2 : 4096;
        b->p = realloc(b->p, b->cap);
        if (b->p == NULL) { fprintf(stderr, "m_random: out of memory\n"); _exit(12); }
    }
    memcpy(b->p + b->n, s, n);
    b->n += n;
    b->p[b->n] = '\0';
}

static void out_printf(struct out *b, const char *fmt, ...) __attribute__((format(printf, 2, 3)));
#include <stdarg.h>
static void out_printf(struct out *b, const char *fmt, ...)
{
    char tmp[512];
    va_list ap;
    va_start(ap, fmt);
    const int n = vsnprintf(tmp, sizeof tmp, fmt, ap);
    va_end(ap);
    out_add(b, tmp, (size_t)(n < (int)sizeof tmp ? n : (int)sizeof tmp - 1));
}

static void out_hex64(struct out *b, const uint64_t v)
{
    static const char hx[] = "0123456789abcdef";
    char t[16];
    for (int i = 0; i < 16; i++) {
        t[i] = hx[(v >> (60 - 4 * i)) & 0xf];
    }
    out_add(b, t, 16);
}

static inline uint64_t dbits(const double x)
{
    uint64_t u;
    memcpy(&u, &x, sizeof u);
    return u;
}

static uint64_t do_call(const struct op *o)
{
    const double *d = o->d;
    switch (o->sampler) {
    case S_SFC64: return cmb_random_sfc64();
    case S_CURSEED: return cmb_random_curseed();
    case S_RANDOM: return dbits(cmb_random());
    case S_UNIFORM: return dbits(cmb_random_uniform(d[0], d[1]));
    case S_TRIANGULAR: return dbits(cmb_random_triangular(d[0], d[1], d[2]));
    case S_STD_NORMAL: return dbits(cmb_random_std_normal());
    case S_NORMAL: return dbits(cmb_random_normal(d[0], d[1]));
    case S_LOGNORMAL: return dbits(cmb_random_lognormal(d[0], d[1]));
    case S_LOGISTIC: return dbits(cmb_random_logistic(d[0], d[1]));
    case S_CAUCHY: return dbits(cmb_random_cauchy(d[0], d[1]));
    case S_STD_EXPONENTIAL: return dbits(cmb_random_std_exponential());
    case S_EXPONENTIAL: return dbits(cmb_random_exponential(d[0]));
    case S_ERLANG: return dbits(cmb_random_erlang((unsigned)o->u[0], d[0]));
    case S_HYPOEXPONENTIAL:
        return dbits(cmb_random_hypoexponential(vecs[o->v[0]].n, vecs[o->v[0]].x));
    case S_HYPEREXPONENTIAL:
        return dbits(cmb_random_hyperexponential(vecs[o->v[0]].n, vecs[o->v[0]].x, vecs[o->v[1]].x));
    case S_STD_GAMMA: return dbits(cmb_random_std_gamma(d[0]));
    case S_GAMMA: return dbits(cmb_random_gamma(d[0], d[1]));
    case S_STD_BETA: return dbits(cmb_random_std_beta(d[0], d[1]));
    case S_BETA: return dbits(cmb_random_beta(d[0], d[1], d[2], d[3]));
    case S_PERT_MOD: return dbits(cmb_random_PERT_mod(d[0], d[1], d[2], d[3]));
    case S_PERT: return dbits(cmb_random_PERT(d[0], d[1], d[2]));
    case S_WEIBULL: return dbits(cmb_random_weibull(d[0], d[1]));
    case S_PARETO: return dbits(cmb_random_pareto(d[0], d[1]));
    case S_CHISQUARED: return dbits(cmb_random_chisquared(d[0]));
    case S_F_DIST: return dbits(cmb_random_F_dist(d[0], d[1]));
    case S_STD_T_DIST: return dbits(cmb_random_std_t_dist(d[0]));
    case S_T_DIST: return dbits(cmb_random_t_dist(d[0], d[1], d[2]));
    case S_RAYLEIGH: return dbits(cmb_random_rayleigh(d[0]));
    case S_FLIP: return (uint64_t)(int64_t)cmb_random_flip();
    case S_BERNOULLI: return (uint64_t)cmb_random_bernoulli(d[0]);
    case S_GEOMETRIC: return (uint64_t)cmb_random_geometric(d[0]);
    case S_BINOMIAL: return (uint64_t)cmb_random_binomial((unsigned)o->u[0], d[0]);
    case S_NEGATIVE_BINOMIAL: return (uint64_t)cmb_random_negative_binomial((unsigned)o->u[0], d[0]);
    case S_PASCAL: return (uint64_t)cmb_random_pascal((unsigned)o->u[0], d[0]);
    case S_POISSON: return (uint64_t)cmb_random_poisson(d[0]);
    case S_DICE: return (uint64_t)(int64_t)cmb_random_dice(o->l[0], o->l[1]);
    case S_LOADED_DICE:
        return (uint64_t)cmb_random_loaded_dice(vecs[o->v[0]].n, vecs[o->v[0]].x);
    case S_ALIAS_SAMPLE: return (uint64_t)cmb_random_alias_sample(vecs[o->v[0]].alias);
    default: break;
    }
    return 0;
}

/* value:count table for integer samplers */
#define HDIRECT 4096
#define HOVER 4096
struct hist {
    uint64_t direct[HDIRECT];
    int64_t okey[HOVER];
    uint64_t ocnt[HOVER];
    unsigned nover;
    uint64_t lost;
};

static void hist_add(struct hist *h, const int64_t v)
{
    if (v >= 0 && v < HDIRECT) {
        h->direct[v]++;
        return;
    }
    for (unsigned i = 0; i < h->nover; i++) {
        if (h->okey[i] == v) { h->ocnt[i]++; return; }
    }
    if (h->nover < HOVER) {
        h->okey[h->nover] = v;
        h->ocnt[h->nover++] = 1;
    }
    else {
        h->lost++;
    }
}

static void mark(const int seg, const int opi)
{
    pthread_mutex_lock(&trace_mx);
    fprintf(g_trace, "B %d %d\n", seg, opi);
    fflush(g_trace);
    pthread_mutex_unlock(&trace_mx);
}

/* Run the ops of one segment in the calling thread, appending to b */
static void run_segment(const int si, const int round, struct out *b)
{
    const struct segment *sg = &segs[si];
    _mm_setcsr(fp_trap ? 0x1d00u : 0x1f80u);
    for (int k = 0; k < sg->nops && !abandoned; k++) {
        const int opi = sg->first + k;
        const struct op *o = &ops[opi];
        if (round == 0) {
            mark(si, opi);
        }
        if (o->kind == OP_SEED) {
            cmb_random_initialize(o->seed);
            continue;
        }
        if (o->kind == OP_TERMINATE) {
            cmb_random_terminate();
            continue;
        }
        const char tag = (o->mode == M_EMIT) ? 'o' : (o->mode == M_DIG) ? 'd' : (o->mode == M_HIST) ? 'h'
                       : (o->mode == M_BINS) ? 'b' : 'c';
        uint64_t *bins = NULL, nnan = 0;
        const double *edges = NULL;
        unsigned nedges = 0;
        double vmin = INFINITY, vmax = -INFINITY;
        long double sum = 0.0L, sumsq = 0.0L;
        if (o->mode == M_BINS) {
            edges = vecs[o->edges].x;
            nedges = vecs[o->edges].n;
            bins = calloc(nedges + 1u, sizeof *bins);
        }
        uint64_t total = 0, maxd = 0, one = 0, dig = 0xcbf29ce484222325ull;
        uint64_t first[8];
        struct hist *h = NULL;
        struct out vals = { 0 };
        if (o->mode == M_HIST) {
            h = calloc(1, sizeof *h);
        }
        jmp_buf jb;
        volatile uint64_t done = 0;
        t_force_pos = o->force_pos;
        t_force_val = o->force_val;
        if (setjmp(jb) != 0) {
            /* draw budget exceeded inside call number `done` */
            t_jmp = NULL;
            abandoned = 1;
            out_printf(b, "X %d %d %d %s call=%" PRIu64 " draws=%" PRIu64 "\n", si, round, opi,
                       samplers[o->sampler].name, (uint64_t)done, t_draws);
            t_force_pos = -1;  /* h / vals are leaked on purpose: indeterminate after longjmp */
            return;
        }
        t_jmp = &jb;
        for (uint64_t c = 0; c < o->count; c++) {
            done = c;
            t_draws = 0;
            const uint64_t r = do_call(o);
            const uint64_t nd = t_draws;
            total += nd;
            if (nd > maxd) maxd = nd;
            if (nd == 1) one++;
            if (o->mode == M_EMIT) {
                out_hex64(&vals, r);
            }
            else if (o->mode == M_DIG) {
                if (c < 8) first[c] = r;
                for (int i = 0; i < 8; i++) {
                    dig ^= (r >> (8 * i)) & 0xff;
                    dig *= 0x100000001b3ull;
                }
            }
            else if (o->mode == M_HIST) {
                hist_add(h, (int64_t)r);
            }
            else if (o->mode == M_BINS) {
                double x;
                memcpy(&x, &r, sizeof x);
                if (x != x) {
                    nnan++;
                }
                else {
                    /* number of edges <= x */
                    unsigned lo = 0, hi = nedges;
                    while (lo < hi) {
                        const unsigned mid = (lo + hi) / 2u;
                        if (edges[mid] <= x) lo = mid + 1u; else hi = mid;
                    }
                    bins[lo]++;
                    if (x < vmin) vmin = x;
                    if (x > vmax) vmax = x;
                    sum += x;
                    sumsq += (long double)x * x;
                }
            }
        }
        t_jmp = NULL;
        t_force_pos = -1;
        if (o->mode == M_CALL) {
            continue;
        }
        out_printf(b, "%c %d %d %d %s calls=%" PRIu64 " draws=%" PRIu64 " max=%" PRIu64 " one=%" PRIu64 " : ",
                   tag, si, round, opi, samplers[o->sampler].name, o->count, total, maxd, one);
        if (o->mode == M_EMIT) {
            if (vals.n > 0) out_add(b, vals.p, vals.n);
            free(vals.p);
        }
        else if (o->mode == M_DIG) {
            out_hex64(b, dig);
            for (uint64_t c = 0; c < o->count && c < 8; c++) {
                out_add(b, " ", 1);
                out_hex64(b, first[c]);
            }
        }
        else if (o->mode == M_BINS) {
            out_printf(b, "nan=%" PRIu64 " min=%a max=%a sum=%La sumsq=%La counts=", nnan, vmin, vmax, sum, sumsq);
            for (unsigned i = 0; i <= nedges; i++) {
                out_printf(b, "%s%" PRIu64, i ? "," : "", bins[i]);
            }
            free(bins);
        }
        else {
            for (int v = 0; v < HDIRECT; v++) {
                if (h->direct[v]) out_printf(b, "%d:%" PRIu64 " ", v, h->direct[v]);
            }
            for (unsigned i = 0; i < h->nover; i++) {
                out_printf(b, "%" PRId64 ":%" PRIu64 " ", h->okey[i], h->ocnt[i]);
            }
            if (h->lost) out_printf(b, "lost:%" PRIu64 " ", h->lost);
            free(h);
        }
        out_add(b, "\n", 1);
    }
}

static void flush_out(struct out *b)
{
    pthread_mutex_lock(&trace_mx);
    if (b->n > 0) fwrite(b->p, 1, b->n, g_trace);
    fflush(g_trace);
    pthread_mutex_unlock(&trace_mx);
    free(b->p);
    b->p = NULL;
    b->n = b->cap = 0;
}

struct job { int seg, round; struct out out; pthread_barrier_t *bar; };

static void *job_thread(void *arg)
{
    struct job *j = arg;
    if (j->bar != NULL) {
        pthread_barrier_wait(j->bar);
    }
    run_segment(j->seg, j->round, &j->out);
    return NULL;
}

/* the persistent worker ("a thread that ran other probes first") */
static pthread_t worker;
static int worker_started;
static pthread_mutex_t wmx = PTHREAD_MUTEX_INITIALIZER;
static pthread_cond_t wcv = PTHREAD_COND_INITIALIZER;
static struct job *wjob;
static int wdone, wquit;

static void *worker_main(void *arg)
{
    (void)arg;
    pthread_mutex_lock(&wmx);
    for (;;) {
        while (wjob == NULL && !wquit) pthread_cond_wait(&wcv, &wmx);
        if (wquit) break;
        struct job *j = wjob;
        pthread_mutex_unlock(&wmx);
        run_segment(j->seg, j->round, &j->out);
        pthread_mutex_lock(&wmx);
        wjob = NULL;
        wdone = 1;
        pthread_cond_broadcast(&wcv);
    }
    pthread_mutex_unlock(&wmx);
    return NULL;
}

static void run_on_worker(struct job *j)
{
    if (!worker_started) {
        pthread_create(&worker, NULL, worker_main, NULL);
        worker_started = 1;
    }
    pthread_mutex_lock(&wmx);
    wjob = j;
    wdone = 0;
    pthread_cond_broadcast(&wcv);
    while (!wdone) pthread_cond_wait(&wcv, &wmx);
    pthread_mutex_unlock(&wmx);
}

static int find_vec(const char *name)
{
    for (int i = 0; i < nvec; i++) {
        if (strcmp(vecs[i].name, name) == 0) return i;
    }
    return -1;
}

static int find_sampler(const char *name)
{
    for (int i = 0; i < S_COUNT; i++) {
        if (strcmp(samplers[i].name, name) == 0) return i;
    }
    return -1;
}

#define PARSE_FAIL(...) do { fprintf(trace, "F parse: " __VA_ARGS__); fprintf(trace, "\n"); return CIMX_PARSE_ERROR; } while (0)

int mode_random(char *text, FILE *trace)
{
    g_trace = trace;
    char *cursor = text;
    char *line;
    static char *tok[MAXTOK];
    int group = 0, in_group = 0, group_rounds = 1;
    const int have_hook = (&cmi_verif_draw_hook != NULL);

    while ((line = cimx_next_line(&cursor)) != NULL) {
        const int nt = cimx_split(line, tok, MAXTOK);
        if (nt == 0) continue;
        if (strcmp(tok[0], "fp") == 0 && nt == 2) {
            fp_trap = (strcmp(tok[1], "trap") == 0);
        }
        else if (strcmp(tok[0], "aliasfp") == 0 && nt == 2) {
            alias_trap = (strcmp(tok[1], "trap") == 0);
        }
        else if (strcmp(tok[0], "budget") == 0 && nt == 2) {
            draw_budget = cimx_u64(tok[1]);
        }
        else if (strcmp(tok[0], "variant") == 0 || strcmp(tok[0], "check") == 0) {
            /* for the Python side */
        }
        else if (strcmp(tok[0], "vec") == 0 && nt >= 3) {
            if (nvec >= MAXVEC) PARSE_FAIL("too many vectors");
            struct vec *v = &vecs[nvec++];
            snprintf(v->name, sizeof v->name, "%s", tok[1]);
            v->n = (unsigned)(nt - 2);
            v->x = malloc(v->n * sizeof(double));
            for (unsigned i = 0; i < v->n; i++) v->x[i] = cimx_dbl(tok[2 + i]);
        }
        else if (strcmp(tok[0], "alias") == 0 && nt == 3) {
            const int src = find_vec(tok[2]);
            if (src < 0 || nvec >= MAXVEC) PARSE_FAIL("alias: unknown vector %s", tok[2]);
            fprintf(trace, "B -1 -1 alias_create\n");
            fflush(trace);
            struct vec *v = &vecs[nvec++];
            snprintf(v->name, sizeof v->name, "%s", tok[1]);
            v->n = vecs[src].n;
            v->x = NULL;
            _mm_setcsr(alias_trap ? 0x1d00u : 0x1f80u);
            v->alias = cmb_random_alias_create(vecs[src].n, vecs[src].x);
            _mm_setcsr(0x1f80u);
        }
        else if (strcmp(tok[0], "segment") == 0 && nt == 2) {
            if (nseg >= MAXSEG) PARSE_FAIL("too many segments");
            struct segment *sg = &segs[nseg++];
            sg->plan = strcmp(tok[1], "main") == 0 ? P_MAIN : strcmp(tok[1], "fresh") == 0 ? P_FRESH
                     : strcmp(tok[1], "reuse") == 0 ? P_REUSE : -1;
            if (sg->plan < 0) PARSE_FAIL("bad plan %s", tok[1]);
            sg->group = in_group ? group : 0;
            sg->rounds = in_group ? group_rounds : 1;
            sg->first = nops;
            sg->nops = 0;
        }
        else if (strcmp(tok[0], "conc-begin") == 0 && nt == 2) {
            in_group = 1;
            group++;
            group_rounds = (int)cimx_i64(tok[1]);
            if (group_rounds < 1 || group_rounds > 1000) PARSE_FAIL("bad rounds");
        }
        else if (strcmp(tok[0], "conc-end") == 0) {
            in_group = 0;
        }
        else if (strcmp(tok[0], "seed") == 0 && nt == 2) {
            if (nseg == 0 || nops >= MAXOPS) PARSE_FAIL("seed outside segment");
            struct op *o = &ops[nops++];
            o->kind = OP_SEED;
            o->seed = cimx_u64(tok[1]);
            segs[nseg - 1].nops++;
        }
        else if (strcmp(tok[0], "terminate") == 0) {
            if (nseg == 0 || nops >= MAXOPS) PARSE_FAIL("terminate outside segment");
            ops[nops++].kind = OP_TERMINATE;
            segs[nseg - 1].nops++;
        }
        else if ((strcmp(tok[0], "call") == 0 || strcmp(tok[0], "emit") == 0
                  || strcmp(tok[0], "dig") == 0 || strcmp(tok[0], "hist") == 0
                  || strcmp(tok[0], "bins") == 0) && nt >= 3) {
            if (nseg == 0 || nops >= MAXOPS) PARSE_FAIL("op outside segment");
            struct op *o = &ops[nops++];
            o->kind = OP_CALL;
            o->mode = tok[0][0] == 'c' ? M_CALL : tok[0][0] == 'e' ? M_EMIT : tok[0][0] == 'd' ? M_DIG
                    : tok[0][0] == 'b' ? M_BINS : M_HIST;
            o->count = cimx_u64(tok[1]);
            o->sampler = find_sampler(tok[2]);
            if (o->sampler < 0) PARSE_FAIL("unknown sampler %s", tok[2]);
            const char *sig = samplers[o->sampler].sig;
            int t = 3, nd = 0, nu = 0, nl = 0, nv = 0;
            for (const char *s = sig; *s; s++, t++) {
                if (t >= nt) PARSE_FAIL("%s: missing argument", tok[2]);
                switch (*s) {
                case 'd': o->d[nd++] = cimx_dbl(tok[t]); break;
                case 'u': o->u[nu++] = cimx_u64(tok[t]); break;
                case 'l': o->l[nl++] = (long)cimx_i64(tok[t]); break;
                case 'v':
                case 'a':
                    o->v[nv] = find_vec(tok[t]);
                    if (o->v[nv] < 0) PARSE_FAIL("%s: unknown vector %s", tok[2], tok[t]);
                    if ((*s == 'a') != (vecs[o->v[nv]].alias != NULL)) PARSE_FAIL("%s: wrong kind %s", tok[2], tok[t]);
                    nv++;
                    break;
                default: break;
                }
            }
            if (o->sampler == S_HYPEREXPONENTIAL && vecs[o->v[0]].n != vecs[o->v[1]].n) {
                PARSE_FAIL("hyperexponential: vector lengths differ");
            }
            if (o->mode == M_HIST && samplers[o->sampler].out != OUT_I) PARSE_FAIL("hist on non-integer sampler");
            o->force_pos = -1;
            if (t < nt && strncmp(tok[t], "force=", 6) == 0) {
                char *s = tok[t] + 6;
                o->force_pos = (int)strtol(s, &s, 10);
                if (*s != ':') PARSE_FAIL("force=<pos>:<hex>");
                o->force_val = strtoull(s + 1, NULL, 16);
                t++;
            }
            if (t < nt && strncmp(tok[t], "edges=", 6) == 0) {
                o->edges = find_vec(tok[t] + 6);
                if (o->edges < 0 || vecs[o->edges].x == NULL) PARSE_FAIL("unknown edge vector %s", tok[t]);
                t++;
            }
            else if (o->mode == M_BINS) {
                PARSE_FAIL("bins needs edges=<vec>");
            }
            if (o->mode == M_BINS && samplers[o->sampler].out != OUT_D) PARSE_FAIL("bins on non-double sampler");
            if (t != nt) PARSE_FAIL("%s: trailing arguments", tok[2]);
            segs[nseg - 1].nops++;
        }
        else {
            PARSE_FAIL("unknown directive %s", tok[0]);
        }
    }

    fprintf(trace, "I hook=%d\n", have_hook);
    fflush(trace);
    if (have_hook) {
        cmi_verif_draw_hook = draw_hook;
    }

    int si = 0;
    while (si < nseg && !abandoned) {
        if (segs[si].group == 0) {
            struct job j = { si, 0, { 0 }, NULL };
            if (segs[si].plan == P_MAIN) {
                run_segment(si, 0, &j.out);
            }
            else if (segs[si].plan == P_FRESH) {
                pthread_t th;
                if (pthread_create(&th, NULL, job_thread, &j) != 0) { perror("pthread_create"); return 12; }
                pthread_join(th, NULL);
            }
            else {
                run_on_worker(&j);
            }
            flush_out(&j.out);
            si++;
            continue;
        }
        /* a concurrent group: segments si..sj-1, each in a fresh thread, all released together */
        int sj = si;
        while (sj < nseg && segs[sj].group == segs[si].group) sj++;
        const int nth = sj - si;
        for (int round = 0; round < segs[si].rounds && !abandoned; round++) {
            pthread_barrier_t bar;
            pthread_barrier_init(&bar, NULL, (unsigned)nth);
            struct job *jobs = calloc((size_t)nth, sizeof *jobs);
            pthread_t *th = calloc((size_t)nth, sizeof *th);
            for (int k = 0; k < nth; k++) {
                jobs[k].seg = si + k;
                jobs[k].round = round;
                jobs[k].bar = &bar;
                if (pthread_create(&th[k], NULL, job_thread, &jobs[k]) != 0) { perror("pthread_create"); return 12; }
            }
            for (int k = 0; k < nth; k++) {
                pthread_join(th[k], NULL);
            }
            for (int k = 0; k < nth; k++) {
                flush_out(&jobs[k].out);
            }
            pthread_barrier_destroy(&bar);
            free(jobs);
            free(th);
        }
        si = sj;
    }
    if (worker_started) {
        pthread_mutex_lock(&wmx);
        wquit = 1;
        pthread_cond_broadcast(&wcv);
        pthread_mutex_unlock(&wmx);
        pthread_join(worker, NULL);
    }
    if (have_hook) {
        cmi_verif_draw_hook = NULL;
    }
    fprintf(trace, "Z done abandoned=%d\n", abandoned);
    return CIMX_OK;
}
