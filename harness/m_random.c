/* placeholder, replaced when the mode is implemented */
#include "cimx.h"
int mode_random(char *text, FILE *trace) { (void)text; fprintf(trace, "F mode random not implemented\n"); return CIMX_PARSE_ERROR; }
