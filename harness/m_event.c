/*
 * m_event.c - C01: histories of schedule / cancel / reschedule / reprioritise /
 * pattern ops / clear / execute on the real event queue, issued from outside
 * the dispatcher and from inside running event actions (nested bodies), checked
 * against a reference model: a plain array of pending events, next to run =
 * minimum by (time ascending, priority descending, order of issue).
 */
#include <inttypes.h>
#include <math.h>
#include <stdarg.h>
#include <stdbool.h>
#include <stdlib.h>
#include <string.h>

#include "cmb_event.h"
#include "cmb_logger.h"

#include "cimx.h"
#include "m_event.h"

struct mev {                 /* one issued event */
    uint64_t handle;
    double time;
    int64_t prio;
    unsigned act;
    void *subj, *obj;
    int body_start;          /* index of first op after the sched op */
    unsigned body_depth;
    bool pending;
    int ran;
    bool cancelled;
};

static const struct ev_case *cur_case;
static FILE *cur_trace;
static struct mev *evs;
static int nevs, capevs;
static bool failed;
static int actions_run;
static double prev_clock;
static uint64_t model_current;
static unsigned cls_tie_time, cls_tie_tp, cls_nested, cls_growth, cls_multipat, cls_skipped,
                cls_nested_mut, cls_maxpending, cls_bigprio, cls_inf;
static uint64_t unique_counter;
static uint64_t queue_cap;

static void fail(const int opidx, const char *fmt, ...) __attribute__((format(printf, 2, 3)));
static void fail(const int opidx, const char *fmt, ...)
{
    if (failed) return;
    failed = true;
    va_list ap;
    va_start(ap, fmt);
    fprintf(cur_trace, "F op#%d: ", opidx);
    vfprintf(cur_trace, fmt, ap);
    fprintf(cur_trace, "\n");
    va_end(ap);
}

static void act0(void *s, void *o);
static void act1(void *s, void *o);
static void act2(void *s, void *o);
static cmb_event_func *const acts[EV_NACT] = { act0, act1, act2 };

static void *val(const unsigned idx) { return (void *)(uintptr_t)idx; }

static int npending(void)
{
    int n = 0;
    for (int k = 0; k < nevs; k++) if (evs[k].pending) n++;
    return n;
}

/* The specified order: does a run before b? */
static bool runs_before(const struct mev *a, const struct mev *b)
{
    if (a->time != b->time) return a->time < b->time;
    if (a->prio != b->prio) return a->prio > b->prio;
    /* "the earlier-issued handle runs first": evs[] is in order of issue, so the index decides - not the
     * numeric value of the handles, which the library is free to choose */
    return a < b;
}

static int model_next(void)
{
    int best = -1;
    for (int k = 0; k < nevs; k++) {
        if (evs[k].pending && (best < 0 || runs_before(&evs[k], &evs[best]))) best = k;
    }
    return best;
}

static bool matches(const struct mev *e, const struct ev_op *o)
{
    if (o->act != EV_WILD && o->act != e->act) return false;
    if (o->subj != EV_WILD && val(o->subj) != e->subj) return false;
    if (o->obj != EV_WILD && val(o->obj) != e->obj) return false;
    return true;
}

static void cross_check(const int opidx)
{
    if (failed) return;
    const int np = npending();
    if ((unsigned)np > cls_maxpending) cls_maxpending = (unsigned)np;
    if (cmb_event_queue_count() != (uint64_t)np) {
        fail(opidx, "queue_count %" PRIu64 " model %d", cmb_event_queue_count(), np);
        return;
    }
    if (cmb_event_queue_is_empty() != (np == 0)) { fail(opidx, "queue_is_empty disagrees"); return; }
    if (cmb_event_current() != model_current) {
        fail(opidx, "event_current %" PRIu64 " model %" PRIu64, cmb_event_current(), model_current);
        return;
    }
    for (int k = 0; k < nevs; k++) {
        const struct mev *e = &evs[k];
        const bool is = cmb_event_is_scheduled(e->handle);
        if (is != e->pending) {
            fail(opidx, "is_scheduled(%" PRIu64 ")=%d model %d", e->handle, is, e->pending);
            return;
        }
        if (is) {
            const double t = cmb_event_time(e->handle);
            const int64_t p = cmb_event_priority(e->handle);
            if (!(t == e->time) || p != e->prio) {
                fail(opidx, "event %" PRIu64 " time/priority %a/%" PRIi64 " model %a/%" PRIi64,
                     e->handle, t, p, e->time, e->prio);
                return;
            }
        }
    }
    /* handles never issued are not scheduled */
    const uint64_t bogus = (uint64_t)nevs + 1000u;
    if (cmb_event_is_scheduled(bogus)) fail(opidx, "is_scheduled(never issued handle) is true");
}

static void run_body(int start, unsigned depth);

static void do_op(const int j, const bool toplevel)
{
    const struct ev_op *o = &cur_case->ops[j];
    switch (o->op) {
    case EV_SCHED: {
        if (nevs == capevs) {
            capevs = capevs ? capevs * 2 : 256;
            evs = realloc(evs, (size_t)capevs * sizeof *evs);
        }
        struct mev *e = &evs[nevs];
        memset(e, 0, sizeof *e);
        e->time = cmb_time() + o->dt;
        e->prio = o->prio;
        e->act = o->act % EV_NACT;
        e->subj = val(o->subj % EV_NVAL);
        e->obj = (o->obj == EV_UNIQUE) ? (void *)(uintptr_t)(1000u + (++unique_counter))
                                       : val(o->obj % EV_NVAL);
        e->body_start = j + 1;
        e->body_depth = o->depth + 1u;
        if (isinf(e->time)) cls_inf++;
        if (e->prio == INT64_MIN || e->prio == INT64_MAX) cls_bigprio++;
        for (int k = 0; k < nevs; k++) {
            if (evs[k].pending && evs[k].time == e->time) {
                cls_tie_time++;
                if (evs[k].prio == e->prio) cls_tie_tp++;
                break;
            }
        }
        const uint64_t before = cmb_event_queue_count();
        e->handle = cmb_event_schedule(acts[e->act], e->subj, e->obj, e->time, e->prio);
        if (e->handle == 0) { fail(j, "schedule returned handle 0"); return; }
        for (int k = 0; k < nevs; k++) {
            if (evs[k].handle == e->handle) { fail(j, "schedule reissued handle %" PRIu64, e->handle); return; }
        }
        e->pending = true;
        nevs++;
        /* classification: the queue starts with 8 slots and doubles when full */
        if (before == queue_cap) { cls_growth++; queue_cap *= 2u; }
        if (!toplevel) cls_nested_mut++;
        break;
    }
    case EV_CANCEL: {
        uint64_t h;
        struct mev *e = NULL;
        if (o->ref >= 1000000u || nevs == 0) {
            h = (uint64_t)nevs + 5000u + o->ref;        /* never issued */
        }
        else {
            e = &evs[o->ref % (unsigned)nevs];
            h = e->handle;
        }
        const bool r = cmb_event_cancel(h);
        const bool want = (e != NULL && e->pending);
        if (r != want) { fail(j, "cancel(%" PRIu64 ") returned %d model %d", h, r, want); return; }
        if (want) { e->pending = false; e->cancelled = true; if (!toplevel) cls_nested_mut++; }
        break;
    }
    case EV_RESCHED: case EV_REPRIO: {
        if (nevs == 0) { cls_skipped++; break; }
        struct mev *e = &evs[o->ref % (unsigned)nevs];
        if (!e->pending) { cls_skipped++; break; }          /* documented precondition */
        if (o->op == EV_RESCHED) {
            const double t = cmb_time() + o->dt;
            cmb_event_reschedule(e->handle, t);
            e->time = t;
        }
        else {
            cmb_event_reprioritize(e->handle, o->prio);
            e->prio = o->prio;
        }
        if (!toplevel) cls_nested_mut++;
        break;
    }
    case EV_PFIND: case EV_PCOUNT: case EV_PCANCEL: {
        cmb_event_func *a = (o->act == EV_WILD) ? CMB_ANY_ACTION : acts[o->act % EV_NACT];
        const void *s = (o->subj == EV_WILD) ? CMB_ANY_SUBJECT : val(o->subj % EV_NVAL);
        const void *ob = (o->obj == EV_WILD) ? CMB_ANY_OBJECT : val(o->obj % EV_NVAL);
        struct ev_op norm = *o;
        if (norm.act != EV_WILD) norm.act %= EV_NACT;
        if (norm.subj != EV_WILD) norm.subj %= EV_NVAL;
        if (norm.obj != EV_WILD) norm.obj %= EV_NVAL;
        int cnt = 0;
        for (int k = 0; k < nevs; k++) if (evs[k].pending && matches(&evs[k], &norm)) cnt++;
        if (cnt >= 2) cls_multipat++;
        if (o->op == EV_PCOUNT) {
            const uint64_t r = cmb_event_pattern_count(a, s, ob);
            if (r != (uint64_t)cnt) { fail(j, "pattern_count %" PRIu64 " model %d", r, cnt); return; }
        }
        else if (o->op == EV_PFIND) {
            const uint64_t r = cmb_event_pattern_find(a, s, ob);
            if (cnt == 0) {
                if (r != 0) { fail(j, "pattern_find returned %" PRIu64 " but nothing matches", r); return; }
            }
            else {
                bool good = false;
                for (int k = 0; k < nevs; k++) {
                    if (evs[k].handle == r && evs[k].pending && matches(&evs[k], &norm)) good = true;
                }
                if (!good) { fail(j, "pattern_find returned %" PRIu64 " which is not a pending match", r); return; }
            }
        }
        else {
            const uint64_t r = cmb_event_pattern_cancel(a, s, ob);
            if (r != (uint64_t)cnt) { fail(j, "pattern_cancel %" PRIu64 " model %d", r, cnt); return; }
            for (int k = 0; k < nevs; k++) {
                if (evs[k].pending && matches(&evs[k], &norm)) { evs[k].pending = false; evs[k].cancelled = true; }
            }
            if (!toplevel && cnt > 0) cls_nested_mut++;
        }
        break;
    }
    case EV_CLEAR:
        cmb_event_queue_clear();
        for (int k = 0; k < nevs; k++) if (evs[k].pending) { evs[k].pending = false; evs[k].cancelled = true; }
        if (!toplevel) cls_nested_mut++;
        break;
    case EV_EXEC:
        if (!toplevel) break;
        for (unsigned r = 0; r < o->count && !failed; r++) {
            const int before = actions_run;
            const bool want = (npending() > 0);
            const bool got = cmb_event_execute_next();
            if (failed) return;
            if (got != want) { fail(j, "execute_next returned %d, model has %d pending", got, npending()); return; }
            if (got && actions_run != before + 1) { fail(j, "execute_next ran %d actions", actions_run - before); return; }
            cross_check(j);
        }
        break;
    case EV_RUN:
        if (!toplevel) break;
        cmb_event_queue_execute();
        if (!failed && npending() != 0) fail(j, "queue_execute returned with %d events still pending in the model", npending());
        break;
    case EV_QUERY:
        break;
    }
}

static void run_body(const int start, const unsigned depth)
{
    for (int j = start; j < cur_case->nops && cur_case->ops[j].depth >= depth && !failed; j++) {
        if (cur_case->ops[j].depth == depth) {
            do_op(j, depth == 0u);
            cross_check(j);
        }
    }
}

static void action_common(const unsigned which, void *s, void *o)
{
    actions_run++;
    if (failed) return;
    const int k = model_next();
    if (k < 0) { fail(-1, "an action ran although the model has nothing pending"); return; }
    struct mev *e = &evs[k];
    const double now = cmb_time();
    if (e->act != which || e->subj != s || e->obj != o) {
        fail(-1, "wrong event ran: got act%u(%p,%p), model expects handle %" PRIu64 " act%u(%p,%p) at %a prio %" PRIi64,
             which, s, o, e->handle, e->act, e->subj, e->obj, e->time, e->prio);
        return;
    }
    if (!(now == e->time)) { fail(-1, "clock %a inside action of event %" PRIu64 " scheduled for %a", now, e->handle, e->time); return; }
    if (now < prev_clock) { fail(-1, "clock went back from %a to %a", prev_clock, now); return; }
    prev_clock = now;
    if (cmb_event_current() != e->handle) {
        fail(-1, "event_current %" PRIu64 " inside action of event %" PRIu64, cmb_event_current(), e->handle);
        return;
    }
    e->pending = false;
    e->ran++;
    model_current = e->handle;
    cross_check(-1);
    if (cur_case->ops[e->body_start - 1].op == EV_SCHED && e->body_start < cur_case->nops
        && cur_case->ops[e->body_start].depth >= e->body_depth) {
        cls_nested++;
        run_body(e->body_start, e->body_depth);
    }
}

static void act0(void *s, void *o) { action_common(0, s, o); }
static void act1(void *s, void *o) { action_common(1, s, o); }
static void act2(void *s, void *o) { action_common(2, s, o); }

int ev_run(const struct ev_case *c, FILE *trace)
{
    cmb_logger_flags_off(CMB_LOGGER_INFO | CMB_LOGGER_WARNING);
    cur_case = c;
    cur_trace = trace;
    nevs = 0;
    failed = false;
    actions_run = 0;
    model_current = 0;
    unique_counter = 0;
    queue_cap = 8u;
    prev_clock = c->start;
    cls_tie_time = cls_tie_tp = cls_nested = cls_growth = cls_multipat = cls_skipped = 0;
    cls_nested_mut = cls_maxpending = cls_bigprio = cls_inf = 0;

    cmb_event_queue_initialize(c->start);
    if (!(cmb_time() == c->start)) fail(-1, "clock %a after initialize(%a)", cmb_time(), c->start);
    cross_check(-1);
    run_body(0, 0u);
    /* drain: every event not cancelled or cleared runs exactly once */
    if (!failed) {
        cmb_event_queue_execute();
        if (!failed && npending() != 0) fail(c->nops, "final queue_execute left %d model events pending", npending());
        if (!failed) cross_check(c->nops);
    }
    if (!failed) {
        int ran_total = 0;
        for (int k = 0; k < nevs; k++) {
            ran_total += evs[k].ran;
            if (evs[k].cancelled && evs[k].ran) fail(c->nops, "cancelled event %" PRIu64 " ran", evs[k].handle);
            if (!evs[k].cancelled && evs[k].ran != 1) fail(c->nops, "event %" PRIu64 " ran %d times", evs[k].handle, evs[k].ran);
        }
        if (ran_total != actions_run) fail(c->nops, "%d action invocations, model accounts for %d", actions_run, ran_total);
    }
    if (failed) return CIMX_ORACLE_FAIL;
    cmb_event_queue_terminate();
    fprintf(trace, "N ops=%d events=%d ran=%d skipped=%u tie_time=%u tie_tp=%u nested=%u nested_mut=%u growth=%u multipat=%u maxpending=%u bigprio=%u inf=%u\n",
            c->nops, nevs, actions_run, cls_skipped, cls_tie_time, cls_tie_tp, cls_nested, cls_nested_mut,
            cls_growth, cls_multipat, cls_maxpending, cls_bigprio, cls_inf);
    return CIMX_OK;
}

/* ---------------------------------------------------------------- text -- */

static const char *const op_names[] = { "sched", "cancel", "resched", "reprio", "pfind", "pcount",
                                        "pcancel", "clear", "exec", "run", "query" };

static void print_val(FILE *f, const unsigned v)
{
    if (v == EV_WILD) fprintf(f, " *");
    else if (v == EV_UNIQUE) fprintf(f, " u");
    else fprintf(f, " %u", v);
}

void ev_print_case(const struct ev_case *c, FILE *f)
{
    fprintf(f, "mode event\nstart %a\n", c->start);
    for (int n = 0; n < c->nops; n++) {
        const struct ev_op *o = &c->ops[n];
        for (unsigned d = 0; d < o->depth; d++) fputc('>', f);
        if (o->depth) fputc(' ', f);
        fprintf(f, "%s", op_names[o->op]);
        switch (o->op) {
        case EV_SCHED:
            print_val(f, o->act); print_val(f, o->subj); print_val(f, o->obj);
            fprintf(f, " %a %" PRIi64, o->dt, o->prio);
            break;
        case EV_CANCEL: fprintf(f, " @%u", o->ref); break;
        case EV_RESCHED: fprintf(f, " @%u %a", o->ref, o->dt); break;
        case EV_REPRIO: fprintf(f, " @%u %" PRIi64, o->ref, o->prio); break;
        case EV_PFIND: case EV_PCOUNT: case EV_PCANCEL:
            print_val(f, o->act); print_val(f, o->subj); print_val(f, o->obj);
            break;
        case EV_EXEC: fprintf(f, " %u", o->count); break;
        default: break;
        }
        fputc('\n', f);
    }
}

static unsigned parse_val(const char *s)
{
    if (strcmp(s, "*") == 0) return EV_WILD;
    if (strcmp(s, "u") == 0) return EV_UNIQUE;
    return (unsigned)cimx_u64(s);
}

int ev_parse(char *text, struct ev_case *c)
{
    char *cursor = text, *line, *tok[10];
    int cap = 0;
    c->nops = 0; c->ops = NULL; c->start = 0.0;
    while ((line = cimx_next_line(&cursor)) != NULL) {
        unsigned depth = 0;
        while (*line == '>') { depth++; line++; }
        const int nt = cimx_split(line, tok, 10);
        if (nt == 0) continue;
        if (strcmp(tok[0], "start") == 0 && nt >= 2) { c->start = cimx_dbl(tok[1]); continue; }
        int op = -1;
        for (int j = 0; j < (int)(sizeof op_names / sizeof op_names[0]); j++) {
            if (strcmp(tok[0], op_names[j]) == 0) op = j;
        }
        if (op < 0) return -1;
        if (c->nops == cap) {
            cap = cap ? cap * 2 : 64;
            c->ops = realloc(c->ops, (size_t)cap * sizeof *c->ops);
        }
        struct ev_op *o = &c->ops[c->nops];
        memset(o, 0, sizeof *o);
        o->op = (enum ev_opcode)op;
        /* a body can only hang below a sched op one level up */
        const unsigned maxdepth = (c->nops > 0) ? c->ops[c->nops - 1].depth
                                  + ((c->ops[c->nops - 1].op == EV_SCHED) ? 1u : 0u) : 0u;
        o->depth = (depth > maxdepth) ? maxdepth : depth;
        c->nops++;
        switch (o->op) {
        case EV_SCHED:
            if (nt < 6) return -1;
            o->act = parse_val(tok[1]); o->subj = parse_val(tok[2]); o->obj = parse_val(tok[3]);
            o->dt = cimx_dbl(tok[4]); o->prio = cimx_i64(tok[5]);
            if (!(o->dt >= 0.0)) return -1;
            break;
        case EV_CANCEL:
            if (nt < 2 || tok[1][0] != '@') return -1;
            o->ref = (unsigned)cimx_u64(tok[1] + 1);
            break;
        case EV_RESCHED:
            if (nt < 3 || tok[1][0] != '@') return -1;
            o->ref = (unsigned)cimx_u64(tok[1] + 1);
            o->dt = cimx_dbl(tok[2]);
            if (!(o->dt >= 0.0)) return -1;
            break;
        case EV_REPRIO:
            if (nt < 3 || tok[1][0] != '@') return -1;
            o->ref = (unsigned)cimx_u64(tok[1] + 1);
            o->prio = cimx_i64(tok[2]);
            break;
        case EV_PFIND: case EV_PCOUNT: case EV_PCANCEL:
            if (nt < 4) return -1;
            o->act = parse_val(tok[1]); o->subj = parse_val(tok[2]); o->obj = parse_val(tok[3]);
            if (o->obj == EV_UNIQUE) o->obj = EV_WILD;
            break;
        case EV_EXEC:
            if (nt < 2) return -1;
            o->count = (unsigned)cimx_u64(tok[1]);
            break;
        default:
            break;
        }
    }
    return 0;
}

int mode_event(char *text, FILE *trace)
{
    struct ev_case c;
    if (ev_parse(text, &c) != 0) {
        fprintf(trace, "F parse error\n");
        return CIMX_PARSE_ERROR;
    }
    const int r = ev_run(&c, trace);
    free(c.ops);
    return r;
}
