/* placeholder, replaced when the mode is implemented */
#include "cimx.h"
int mode_event(char *text, FILE *trace) { (void)text; fprintf(trace, "F mode event not implemented\n"); return CIMX_PARSE_ERROR; }
