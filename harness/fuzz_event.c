/*
 * fuzz_event.c - libFuzzer front end for C01: bytes decoded into the op tree of
 * m_event.c (including nested bodies executed from inside event actions) and
 * run through the same reference model (ev_run).
 */
#include <stdint.h>
#include <stdio.h>
#include <stdlib.h>
#include <string.h>
#include <unistd.h>

#include "cimx.h"
#include "m_event.h"

static const double DTS[] = { 0.0, 0.0, 1.0, 1.0, 2.0, 0x1p-30, 1e300, 0.5 };
static const int64_t PR[] = { -1, 0, 0, 1, 1, INT64_MIN, INT64_MAX, 5 };
static const double STARTS[] = { 0.0, 0.0, -5.0, -1e9, 1e15, 0.0, 0.0, 0.0 };

int LLVMFuzzerTestOneInput(const uint8_t *data, size_t size)
{
    if (size < 2) return 0;
    struct ev_case c;
    static struct ev_op ops[2048];
    c.ops = ops;
    c.nops = 0;
    c.start = STARTS[data[0] % 8u];
    size_t i = 1;
    unsigned depth = 0;
    while (i < size && c.nops < 2048) {
        struct ev_op *o = &ops[c.nops];
        memset(o, 0, sizeof *o);
        const uint8_t b = data[i++];
        const uint8_t a1 = (i < size) ? data[i++] : 0;
        const uint8_t a2 = (i < size) ? data[i++] : 0;
        /* nesting: top two bits steer the depth relative to the previous op */
        const unsigned maxdepth = (c.nops > 0) ? ops[c.nops - 1].depth + ((ops[c.nops - 1].op == EV_SCHED) ? 1u : 0u) : 0u;
        switch (b >> 6) {
        case 0: depth = 0; break;
        case 1: depth = maxdepth; break;
        case 2: depth = (maxdepth > 0u) ? maxdepth - 1u : 0u; break;
        default: break;
        }
        if (depth > maxdepth) depth = maxdepth;
        if (depth > 2u) depth = 2u;
        o->depth = depth;
        switch (b % 16u) {
        case 0: case 1: case 2: case 3: case 4: case 5:
            o->op = EV_SCHED;
            o->act = a1 % 3u;
            o->subj = (a1 >> 2) % 4u;
            o->obj = ((a1 >> 4) % 6u >= 4u) ? EV_UNIQUE : (a1 >> 4) % 4u;
            o->dt = DTS[a2 % 8u];
            o->prio = PR[(a2 >> 3) % 8u];
            break;
        case 6: case 7:
            o->op = EV_CANCEL;
            o->ref = (a1 == 255u) ? 1000000u : a1 % 40u;
            i -= 1;
            break;
        case 8:
            o->op = EV_RESCHED;
            o->ref = a1 % 40u;
            o->dt = DTS[a2 % 8u];
            break;
        case 9:
            o->op = EV_REPRIO;
            o->ref = a1 % 40u;
            o->prio = PR[a2 % 8u];
            break;
        case 10: case 11: case 12:
            o->op = (b % 16u == 10u) ? EV_PFIND : ((b % 16u == 11u) ? EV_PCOUNT : EV_PCANCEL);
            o->act = (a1 % 4u == 3u) ? EV_WILD : a1 % 4u % 3u;
            o->subj = ((a1 >> 2) % 5u == 4u) ? EV_WILD : (a1 >> 2) % 5u;
            o->obj = ((a1 >> 5) % 5u == 4u) ? EV_WILD : (a1 >> 5) % 5u % 4u;
            i -= 1;
            break;
        case 13:
            o->op = (a1 % 16u == 0u) ? EV_CLEAR : EV_QUERY;
            i -= 1;
            break;
        case 14:
            o->op = EV_EXEC;
            o->count = 1u + a1 % 4u;
            o->depth = depth = 0;
            i -= 1;
            break;
        default:
            o->op = (a1 % 4u == 0u) ? EV_RUN : EV_QUERY;
            if (o->op == EV_RUN) o->depth = depth = 0;
            i -= 1;
            break;
        }
        c.nops++;
    }
    const char *dump = getenv("FUZZ_DUMP");      /* replaying an artifact: write the case as text first */
    if (dump != NULL) {
        FILE *df = fopen(dump, "w");
        if (df) { ev_print_case(&c, df); fclose(df); }
    }
    static FILE *sink = NULL;
    if (sink == NULL) sink = fopen("/dev/null", "w");
    const int r = ev_run(&c, sink);
    if (r != CIMX_OK) {
        const char *dir = getenv("FUZZ_CASE_DIR");
        char path[512];
        snprintf(path, sizeof path, "%s/case-%d-%zu.case", dir ? dir : ".", (int)getpid(), size);
        FILE *f = fopen(path, "w");
        if (f) { ev_print_case(&c, f); fclose(f); }
        __builtin_trap();
    }
    return 0;
}
