;
; coro_probe.asm - register / MXCSR probe and entry / exit stubs for the C03 check
; (executor mode "coro", see m_coro.c). NASM syntax, SysV AMD64 ABI.
;
; coro_probe_call(io, thunk)
;     loads the six callee-saved general purpose registers and MXCSR from io,
;     calls thunk(io) - a C function that performs ONE library call that may
;     switch to other coroutines - and, when that call returns (possibly after
;     any number of other coroutines have run), stores the same registers and
;     MXCSR back into io. The caller compares in[] with out[].
;
; coro_entry_stub(cp, context)
;     the coroutine / process function handed to the library. Snapshots rsp,
;     the callee-saved registers and MXCSR exactly as the library delivered them
;     at function entry, performs an aligned SSE store relative to the incoming
;     rsp if (and only if) rsp has the ABI alignment, and tail-jumps into the C
;     body coro_body(cp, context) so that the C function returns straight into
;     the library's trampoline.
;
; coro_exit_stub(retval)
;     the exit function handed to the library (raw layer, exitfn probe): the
;     same snapshot at the entry of the exit function reached by returning from
;     the coroutine function, then tail-jumps into coro_exit_body(retval).
;
; Layout of struct coro_probe_io (must match m_coro.c):
;     0   in[6]    rbx rbp r12 r13 r14 r15
;     48  out[6]
;     96  mxcsr_in   (32 bit)
;     100 mxcsr_out  (32 bit)
;     104 rsp_in
;     112 rsp_out
;     120 guard_out  (copy of the guard word kept on the stack across the call)
;
; Layout of struct coro_snap (must match m_coro.c):
;     0 rsp, 8 rbx, 16 rbp, 24 r12, 32 r13, 40 r14, 48 r15, 56 mxcsr(32), 60 movaps_done(32)

bits 64
default rel

section .note.GNU-stack noalloc noexec nowrite progbits

section .bss
align 16
global coro_entry_snap
global coro_exit_snap
coro_entry_snap: resb 64
coro_exit_snap:  resb 64

section .text
global coro_probe_call
global coro_entry_stub
global coro_exit_stub
extern coro_body
extern coro_exit_body

%define PROBE_GUARD 0x5ca1ab1ec0ffee11

coro_probe_call:
    ; keep the C caller's own callee-saved state
    push rbp
    push rbx
    push r12
    push r13
    push r14
    push r15
    push rdi                    ; io, needed again after the call
    sub rsp, 16                 ; [rsp] caller's MXCSR, [rsp+8] guard word
    stmxcsr [rsp]
    mov rax, PROBE_GUARD
    mov [rsp + 8], rax
    mov [rdi + 104], rsp
    mov rax, rsi                ; thunk
    ; load the generated patterns into every callee-saved register
    mov rbx, [rdi + 0]
    mov rbp, [rdi + 8]
    mov r12, [rdi + 16]
    mov r13, [rdi + 24]
    mov r14, [rdi + 32]
    mov r15, [rdi + 40]
    ldmxcsr [rdi + 96]
    ; rsp is 16-byte aligned here (8 + 6*8 + 8 + 16 = 80 below an 8-mod-16 entry)
    call rax
    ; back, possibly much later: record what we got without touching the
    ; registers under test (rax is caller-saved)
    mov rax, [rsp + 16]         ; io
    mov [rax + 48], rbx
    mov [rax + 56], rbp
    mov [rax + 64], r12
    mov [rax + 72], r13
    mov [rax + 80], r14
    mov [rax + 88], r15
    stmxcsr [rax + 100]
    mov [rax + 112], rsp
    mov rbx, [rsp + 8]
    mov [rax + 120], rbx
    ; restore the C caller's state
    ldmxcsr [rsp]
    add rsp, 24
    pop r15
    pop r14
    pop r13
    pop r12
    pop rbx
    pop rbp
    ret

%macro snapshot 1
    lea rax, [%1]
    mov [rax + 0], rsp
    mov [rax + 8], rbx
    mov [rax + 16], rbp
    mov [rax + 24], r12
    mov [rax + 32], r13
    mov [rax + 40], r14
    mov [rax + 48], r15
    stmxcsr [rax + 56]
    mov dword [rax + 60], 0
    ; ABI: at function entry (rsp + 8) is a multiple of 16
    mov rdx, rsp
    and rdx, 15
    cmp rdx, 8
    jne %%misaligned
    ; aligned 16-byte SSE store into the red zone, relative to the incoming rsp:
    ; faults (#GP) if the explicit test above were wrong about the alignment
    movaps [rsp - 24], xmm0
    mov dword [rax + 60], 1
%%misaligned:
%endmacro

coro_entry_stub:
    snapshot coro_entry_snap
    jmp coro_body

coro_exit_stub:
    snapshot coro_exit_snap
    jmp coro_exit_body
