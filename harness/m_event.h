#ifndef M_EVENT_H
#define M_EVENT_H
#include <stdint.h>
#include <stdio.h>

enum ev_opcode { EV_SCHED = 0, EV_CANCEL, EV_RESCHED, EV_REPRIO, EV_PFIND, EV_PCOUNT,
                 EV_PCANCEL, EV_CLEAR, EV_EXEC, EV_RUN, EV_QUERY };

#define EV_WILD 255u
#define EV_UNIQUE 254u       /* object = a value unique to this event */
#define EV_NACT 3u
#define EV_NVAL 4u           /* subject/object table: 0 = NULL, 1..3 */

struct ev_op {
    enum ev_opcode op;
    unsigned depth;          /* nesting: ops at depth d+1 after a sched at depth d are its action's body */
    unsigned act, subj, obj; /* table indices, EV_WILD in patterns, EV_UNIQUE for obj */
    double dt;               /* scheduled time = cmb_time() + dt */
    int64_t prio;
    unsigned ref;            /* @ref: index (mod count) into the handles issued so far; >= 1000000 = bogus handle */
    unsigned count;          /* exec count */
};

struct ev_case {
    double start;
    int nops;
    struct ev_op *ops;
};

extern int ev_parse(char *text, struct ev_case *c);
extern int ev_run(const struct ev_case *c, FILE *trace);
extern void ev_print_case(const struct ev_case *c, FILE *f);
#endif
