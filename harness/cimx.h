/*
 * cimx.h - common declarations for the cimx case executor.
 *
 * A mode function receives the case text (NUL terminated, first line
 * "mode <name>" already consumed) and a FILE* for the trace. It returns
 *   0  - case executed to completion (oracles living in Python judge the trace)
 *   10 - an in-executor oracle (reference model) failed; "F ..." lines say why
 *   11 - the case text could not be parsed (a bug in the generator)
 */
#ifndef CIMX_H
#define CIMX_H

#include <stdint.h>
#include <stdio.h>

#define CIMX_OK 0
#define CIMX_ORACLE_FAIL 10
#define CIMX_PARSE_ERROR 11

typedef int (cimx_mode_func)(char *text, FILE *trace);

extern cimx_mode_func mode_hashheap;
extern cimx_mode_func mode_event;
extern cimx_mode_func mode_mempool;
extern cimx_mode_func mode_sim;
extern cimx_mode_func mode_coro;
extern cimx_mode_func mode_random;
extern cimx_mode_func mode_stats;
extern cimx_mode_func mode_experiment;

/* line/token helpers (cimx_util.c) */
extern char *cimx_next_line(char **cursor);           /* NULL at end; strips \n */
extern int cimx_split(char *line, char **tok, int maxtok); /* whitespace split */
extern int64_t cimx_i64(const char *s);               /* decimal or 0x..; "min"/"max" */
extern uint64_t cimx_u64(const char *s);
extern double cimx_dbl(const char *s);                /* hex float, decimal, inf */

#endif
