/* placeholder, replaced when the mode is implemented */
#include "cimx.h"
int mode_sim(char *text, FILE *trace) { (void)text; fprintf(trace, "F mode sim not implemented\n"); return CIMX_PARSE_ERROR; }
