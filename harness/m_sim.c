/*
 * m_sim.c - the simulation scenario interpreter (C04-C14, C10).
 *
 * A scenario declares objects (resources, pools, buffers, object queues,
 * priority queues, conditions with observed guards), processes with scripts of
 * operations, and dispatcher-level commands scheduled as plain events. The
 * interpreter runs it against the real library and writes a trace:
 *
 *   C seq evno time pid op# name args..      call of an operation
 *   R seq evno time pid op# ret outs..       its return (ret = signal value)
 *   K seq evno time pid op# name reason      skipped: documented precondition false
 *   X seq evno time name args.. -> result    dispatcher-level command executed
 *   B seq evno time pid run#                 process function entered
 *   Z seq evno time pid how value            process function about to end (return/exit)
 *   L seq evno time pid obj amount           process learned (on PREEMPTED) that it lost a holding
 *   P seq evno time cond pid result          the library evaluated a harness predicate
 *   G seq evno time cond why obj pid:0|1 ... ground truth: predicates of all waiters of cond, evaluated by the harness
 *   T seq evno time guard                    signal tap: the library signalled this guard
 *   U seq evno time k                        user event k executed
 *   S evno time key=value ...                snapshot after each dispatched event (only changed keys)
 *   Q evno time                              quiescence: the event queue is empty
 *   H obj n x0 t0 x1 t1 ...                  recorded history at quiescence (hex floats)
 *   M obj mean                               time-weighted mean from cmb_timeseries_summarize
 *   D                                        teardown starts (nothing after this is judged except crashes)
 *   V family message                         invariant over the library's own queries violated
 *
 * `evno` counts dispatched events: a call whose C and R records carry the same
 * evno never yielded. Oracles live in Python (pbt/simtrace.py).
 */
#include <inttypes.h>
#include <math.h>
#include <stdarg.h>
#include <stdbool.h>
#include <stdlib.h>
#include <string.h>

#include "cmb_buffer.h"
#include "cmb_condition.h"
#include "cmb_event.h"
#include "cmb_logger.h"
#include "cmb_objectqueue.h"
#include "cmb_priorityqueue.h"
#include "cmb_process.h"
#include "cmb_resource.h"
#include "cmb_resourcepool.h"
#include "cmb_timeseries.h"
#include "cmb_wtdsummary.h"

#include "cimx.h"

#define MAXOBJ 16
#define MAXPROC 64
#define MAXCTR 8
#define EVENT_CEILING 20000u

enum okind { O_RES, O_POOL, O_BUF, O_OQ, O_PQ, O_COND };

struct sobj {
    enum okind kind;
    char name[24];
    void *ptr;
    uint64_t cap;
    uint64_t *handles;          /* pq: handles issued so far */
    int nh, caph;
    bool recording;
    int tap_of;                 /* cond used as tap: index of ... unused */
};

enum predkind { PR_FALSE, PR_TRUE, PR_CTR, PR_RESFREE, PR_POOLAVAIL, PR_BUFLEVEL, PR_QLEN };

struct spred {
    enum predkind kind;
    int obj;                    /* object index or counter index */
    int64_t arg;
    int pid;
    int cond;                   /* condition waited on, -1 if none */
};

enum opcode {
    OP_HOLD, OP_YIELD, OP_ACQUIRE, OP_PREEMPT, OP_PACQ, OP_PPRE, OP_BPUT, OP_BGET,
    OP_OPUT, OP_OGET, OP_KPUT, OP_KGET, OP_CWAIT, OP_WAIT_PROC, OP_WAIT_EV,
    OP_RELEASE, OP_PREL, OP_TIMER_ADD, OP_TIMER_SET, OP_TIMER_CANCEL, OP_TIMERS_CLEAR,
    OP_KCANCEL, OP_KREPRIO, OP_KPOS, OP_OPOS, OP_CSIGNAL, OP_CCANCEL, OP_CREMOVE, OP_CTRSET,
    OP_INTERRUPT, OP_RESUME, OP_STOP, OP_SETPRIO, OP_START, OP_USCHED, OP_UCANCEL,
    OP_URESCHED, OP_REC_ON, OP_REC_OFF, OP_FILL_TO, OP_FTIMER_ADD, OP_FTIMER_CANCEL, OP_FTIMERS_CLEAR,
    OP_CUNSUB, OP_CSUB, OP_EXIT, OP_RETURN, OP_NOP, OP__COUNT
};

static const char *const opnames[OP__COUNT] = {
    "hold", "yield", "acquire", "preempt", "pacq", "ppre", "bput", "bget",
    "oput", "oget", "kput", "kget", "cwait", "wait_proc", "wait_ev",
    "release", "prel", "timer_add", "timer_set", "timer_cancel", "timers_clear",
    "kcancel", "kreprio", "kpos", "opos", "csignal", "ccancel", "cremove", "ctrset",
    "interrupt", "resume", "stop", "setprio", "start", "usched", "ucancel",
    "uresched", "rec_on", "rec_off", "fill_to", "ftimer_add", "ftimer_cancel", "ftimers_clear",
    "cunsub", "csub", "exit", "return", "nop"
};

struct sop {
    enum opcode code;
    int obj;            /* object index */
    int tgt;            /* process index */
    int64_t i1, i2;     /* signal / priority / value / counts */
    uint64_t u1;        /* amounts */
    double d1;          /* durations */
    struct spred pred;
    int repeat;         /* execute this op that many times (stress scenarios), 0 = once */
};

struct sproc {
    struct cmb_process *p;
    char name[16];
    int64_t prio0;
    double start;
    int64_t start_prio;
    struct sop *ops;
    int nops, capops;
    int pc;
    int runs;
    int blocked_op;                 /* op# of the blocking call in progress, -1 if none */
    enum opcode blocked_code;
    bool mine_res[MAXOBJ];          /* told SUCCESS, not told otherwise */
    uint64_t mine_pool[MAXOBJ];
    uint64_t *timers;
    int ntimers, captimers;
    uint64_t amnt;                  /* in-flight *amntp of a buffer call */
    bool amnt_active;
    struct spred pred;              /* predicate of the cwait in progress */
    bool is_tap;
};

struct scmd {
    double t;
    int64_t prio;
    struct sop op;
};

struct uevent { uint64_t handle; int act; };
/* programs for user events: "action K <dispatcher-level op>" lines, run by the event "usched d prio act K" */
#define MAXACT 8
#define MAXACTOPS 4
static struct sop actops[MAXACT][MAXACTOPS];
static int nactops[MAXACT];

static FILE *tf;
static uint64_t seqno, evno;
static struct sobj objs[MAXOBJ];
static int nobjs;
static struct sproc procs[MAXPROC];
static int nprocs;
static int nuserprocs;            /* procs[0..nuserprocs) are scripted, the rest are signal taps */
static struct scmd *cmds;
static int ncmds, capcmds;
static struct uevent *uevs;
static int nuevs, capuevs;
static int64_t counters[MAXCTR];
static double start_time;
/* observation links: cond index observes guard (object index, side) */
struct obslink { int cond; int obj; int side; bool via_subscribe; bool active; };
static struct obslink links[64];
static int nlinks;
/* taps: one per observed guard */
struct tap { int obj; int side; struct cmb_condition *cv; int pid; };
static struct tap taps[32];
static int ntaps;
static bool in_teardown;
/* "trusting 1": release / prel go by what the process itself was told (SUCCESS and no PREEMPTED since),
 * as a user program does, without first asking the library whether it still holds the thing */
static bool trusting;
/* objects a process held when it ended in the event being dispatched (ground truth "after-drop") */
static bool dropped_obj[MAXOBJ];

static void note_drops(const struct cmb_process *p);

static void tr(const char *fmt, ...) __attribute__((format(printf, 1, 2)));
static void tr(const char *fmt, ...)
{
    va_list ap;
    va_start(ap, fmt);
    vfprintf(tf, fmt, ap);
    va_end(ap);
}

#define HDR(ch, pid, opi) tr("%c %" PRIu64 " %" PRIu64 " %a %d %d", ch, ++seqno, evno, cmb_time(), pid, opi)

static int current_pid(void)
{
    const struct cmb_process *me = cmb_process_current();
    if (me == NULL) return -1;
    for (int k = 0; k < nprocs; k++) if (procs[k].p == me) return k;
    return -2;
}

/* ------------------------------------------------------------ objects -- */

static struct cmb_resourceguard *guard_of(const int obj, const int side)
{
    struct sobj *o = &objs[obj];
    switch (o->kind) {
    case O_RES: return &((struct cmb_resource *)o->ptr)->guard;
    case O_POOL: return &((struct cmb_resourcepool *)o->ptr)->guard;
    case O_BUF: return side ? &((struct cmb_buffer *)o->ptr)->rear_guard
                            : &((struct cmb_buffer *)o->ptr)->front_guard;
    case O_OQ: return side ? &((struct cmb_objectqueue *)o->ptr)->rear_guard
                           : &((struct cmb_objectqueue *)o->ptr)->front_guard;
    case O_PQ: return side ? &((struct cmb_priorityqueue *)o->ptr)->rear_guard
                           : &((struct cmb_priorityqueue *)o->ptr)->front_guard;
    case O_COND: return &((struct cmb_condition *)o->ptr)->guard;
    }
    return NULL;
}

static bool eval_pred(const struct spred *pr)
{
    switch (pr->kind) {
    case PR_FALSE: return false;
    case PR_TRUE: return true;
    case PR_CTR: return counters[pr->obj] >= pr->arg;
    case PR_RESFREE: return cmb_resource_available(objs[pr->obj].ptr) > 0u;
    case PR_POOLAVAIL: return (int64_t)cmb_resourcepool_available(objs[pr->obj].ptr) >= pr->arg;
    case PR_BUFLEVEL: return (int64_t)cmb_buffer_level(objs[pr->obj].ptr) >= pr->arg;
    case PR_QLEN:
        if (objs[pr->obj].kind == O_OQ) return (int64_t)cmb_objectqueue_length(objs[pr->obj].ptr) >= pr->arg;
        return (int64_t)cmb_priorityqueue_length(objs[pr->obj].ptr) >= pr->arg;
    }
    return false;
}

/* Ground truth: the harness evaluates the predicate of every process that is
 * inside cmb_condition_wait on this condition right now. */
static void log_ground(const int cond, const char *why, const char *objname)
{
    bool any = false;
    for (int k = 0; k < nprocs; k++) {
        if (procs[k].blocked_op >= 0 && procs[k].blocked_code == OP_CWAIT && procs[k].pred.cond == cond) {
            if (!any) {
                tr("G %" PRIu64 " %" PRIu64 " %a %s %s %s", ++seqno, evno, cmb_time(), objs[cond].name, why, objname);
                any = true;
            }
            tr(" %d:%d", k, eval_pred(&procs[k].pred) ? 1 : 0);
        }
    }
    if (any) tr("\n");
}

/* Ground truth after an operation that changed the state of obj: for every
 * condition observing one of its guards */
static void log_ground_for_object(const int obj, const char *why)
{
    for (int l = 0; l < nlinks; l++) {
        if (links[l].obj == obj && links[l].active) {
            bool seen = false;
            for (int m = 0; m < l; m++) if (links[m].obj == obj && links[m].cond == links[l].cond && links[m].active) seen = true;
            if (!seen) log_ground(links[l].cond, why, objs[obj].name);
        }
    }
}

static void note_drops(const struct cmb_process *p)
{
    for (int k = 0; k < nobjs; k++) {
        if (objs[k].kind == O_RES && cmb_resource_held_by_process(objs[k].ptr, p) != 0u) dropped_obj[k] = true;
        else if (objs[k].kind == O_POOL && cmb_resourcepool_held_by_process(objs[k].ptr, p) != 0u) dropped_obj[k] = true;
    }
}

static bool harness_demand(const struct cmb_condition *cnd, const struct cmb_process *prc, const void *ctx)
{
    (void)cnd; (void)prc;
    const struct spred *pr = ctx;
    const bool r = eval_pred(pr);
    tr("P %" PRIu64 " %" PRIu64 " %a %s %d %d\n", ++seqno, evno, cmb_time(),
       (pr->cond >= 0) ? objs[pr->cond].name : "?", pr->pid, r ? 1 : 0);
    return r;
}

static bool tap_demand(const struct cmb_condition *cnd, const struct cmb_process *prc, const void *ctx)
{
    (void)cnd; (void)prc;
    const struct tap *tp = ctx;
    if (in_teardown) return false;
    tr("T %" PRIu64 " %" PRIu64 " %a %s.%d\n", ++seqno, evno, cmb_time(), objs[tp->obj].name, tp->side);
    for (int l = 0; l < nlinks; l++) {
        if (links[l].obj == tp->obj && links[l].side == tp->side && links[l].active) log_ground(links[l].cond, "tap", objs[tp->obj].name);
    }
    return false;
}

static void *tap_main(struct cmb_process *me, void *ctx)
{
    (void)me;
    struct tap *tp = ctx;
    for (;;) {
        (void)cmb_condition_wait(tp->cv, tap_demand, tp);
    }
    return NULL;
}

/* ---------------------------------------------------------- recording -- */

static void rec_switch(const int obj, const bool on)
{
    struct sobj *o = &objs[obj];
    switch (o->kind) {
    case O_RES: on ? cmb_resource_start_recording(o->ptr) : cmb_resource_stop_recording(o->ptr); break;
    case O_POOL: on ? cmb_resourcepool_start_recording(o->ptr) : cmb_resourcepool_stop_recording(o->ptr); break;
    case O_BUF: on ? cmb_buffer_recording_start(o->ptr) : cmb_buffer_recording_stop(o->ptr); break;
    case O_OQ: on ? cmb_objectqueue_recording_start(o->ptr) : cmb_objectqueue_recording_stop(o->ptr); break;
    case O_PQ: on ? cmb_priorityqueue_recording_start(o->ptr) : cmb_priorityqueue_recording_stop(o->ptr); break;
    default: break;
    }
    o->recording = on;
}

static struct cmb_timeseries *history_of(const int obj)
{
    struct sobj *o = &objs[obj];
    switch (o->kind) {
    case O_RES: return cmb_resource_history(o->ptr);
    case O_POOL: return cmb_resourcepool_get_history(o->ptr);
    case O_BUF: return cmb_buffer_history(o->ptr);
    case O_OQ: return cmb_objectqueue_history(o->ptr);
    case O_PQ: return cmb_priorityqueue_history(o->ptr);
    default: return NULL;
    }
}

static double current_value(const int obj)
{
    struct sobj *o = &objs[obj];
    switch (o->kind) {
    case O_RES: return (double)cmb_resource_in_use(o->ptr);
    case O_POOL: return (double)cmb_resourcepool_in_use(o->ptr);
    case O_BUF: return (double)cmb_buffer_level(o->ptr);
    case O_OQ: return (double)cmb_objectqueue_length(o->ptr);
    case O_PQ: return (double)cmb_priorityqueue_length(o->ptr);
    default: return 0.0;
    }
}

/* ----------------------------------------------------------- snapshot -- */

#define MAXSLOTS 512
static char slot_name[MAXSLOTS][24];
static char slot_val[MAXSLOTS][96];
static int nslots;
static char snapbuf[16384];
static size_t snaplen;

static void snap_put(const char *name, const char *fmt, ...) __attribute__((format(printf, 2, 3)));
static void snap_put(const char *name, const char *fmt, ...)
{
    char v[96];
    va_list ap;
    va_start(ap, fmt);
    vsnprintf(v, sizeof v, fmt, ap);
    va_end(ap);
    int s = -1;
    for (int k = 0; k < nslots; k++) if (strcmp(slot_name[k], name) == 0) { s = k; break; }
    if (s < 0) {
        if (nslots == MAXSLOTS) return;
        s = nslots++;
        snprintf(slot_name[s], sizeof slot_name[s], "%s", name);
        slot_val[s][0] = '\1';
    }
    if (strcmp(slot_val[s], v) != 0) {
        snprintf(slot_val[s], sizeof slot_val[s], "%s", v);
        if (snaplen < sizeof snapbuf - 128) {
            snaplen += (size_t)snprintf(snapbuf + snaplen, sizeof snapbuf - snaplen, " %s=%s", name, v);
        }
    }
}

static void snap_invalidate(const char *name)
{
    for (int k = 0; k < nslots; k++) if (strcmp(slot_name[k], name) == 0) slot_val[k][0] = '\1', slot_val[k][1] = '\0';
}

static void vline(const char *family, const char *fmt, ...) __attribute__((format(printf, 2, 3)));
static void vline(const char *family, const char *fmt, ...)
{
    va_list ap;
    va_start(ap, fmt);
    tr("V %s %" PRIu64 " %a ", family, evno, cmb_time());
    vfprintf(tf, fmt, ap);
    tr("\n");
    va_end(ap);
}

static void snapshot(void)
{
    char key[40], buf[96];
    snaplen = 0;
    snapbuf[0] = '\0';
    for (int k = 0; k < nobjs; k++) {
        struct sobj *o = &objs[k];
        switch (o->kind) {
        case O_RES: {
            struct cmb_resource *r = o->ptr;
            size_t n = 0; buf[0] = '\0';
            uint64_t sum = 0;
            for (int p = 0; p < nprocs; p++) {
                if (procs[p].is_tap) continue;
                const uint64_t h = cmb_resource_held_by_process(r, procs[p].p);
                if (h) { n += (size_t)snprintf(buf + n, sizeof buf - n, "%s%d", n ? "," : "", p); sum += h; }
            }
            snprintf(key, sizeof key, "%s.h", o->name); snap_put(key, "%s", n ? buf : "-");
            snprintf(key, sizeof key, "%s.u", o->name); snap_put(key, "%" PRIu64, cmb_resource_in_use(r));
            snprintf(key, sizeof key, "%s.a", o->name); snap_put(key, "%" PRIu64, cmb_resource_available(r));
            if (cmb_resource_in_use(r) + cmb_resource_available(r) != 1u) {
                vline("C05", "%s in_use %" PRIu64 " + available %" PRIu64 " != 1", o->name,
                      cmb_resource_in_use(r), cmb_resource_available(r));
            }
            break;
        }
        case O_POOL: {
            struct cmb_resourcepool *pl = o->ptr;
            size_t n = 0; buf[0] = '\0';
            uint64_t sum = 0;
            for (int p = 0; p < nprocs; p++) {
                if (procs[p].is_tap) continue;
                const uint64_t h = cmb_resourcepool_held_by_process(pl, procs[p].p);
                if (h) {
                    if (n < sizeof buf - 24) n += (size_t)snprintf(buf + n, sizeof buf - n, "%s%d:%" PRIu64, n ? "," : "", p, h);
                    sum += h;
                }
            }
            snprintf(key, sizeof key, "%s.h", o->name); snap_put(key, "%s", n ? buf : "-");
            snprintf(key, sizeof key, "%s.u", o->name); snap_put(key, "%" PRIu64, cmb_resourcepool_in_use(pl));
            snprintf(key, sizeof key, "%s.a", o->name); snap_put(key, "%" PRIu64, cmb_resourcepool_available(pl));
            if (cmb_resourcepool_in_use(pl) != sum) {
                vline("C07", "%s in_use %" PRIu64 " != sum of held_by_process %" PRIu64, o->name,
                      cmb_resourcepool_in_use(pl), sum);
            }
            if (cmb_resourcepool_in_use(pl) > o->cap) {
                vline("C07", "%s in_use %" PRIu64 " > capacity %" PRIu64, o->name, cmb_resourcepool_in_use(pl), o->cap);
            }
            if (cmb_resourcepool_available(pl) != o->cap - cmb_resourcepool_in_use(pl)) {
                vline("C07", "%s available %" PRIu64 " != capacity - in_use", o->name, cmb_resourcepool_available(pl));
            }
            break;
        }
        case O_BUF: {
            struct cmb_buffer *b = o->ptr;
            snprintf(key, sizeof key, "%s.l", o->name); snap_put(key, "%" PRIu64, cmb_buffer_level(b));
            snprintf(key, sizeof key, "%s.s", o->name); snap_put(key, "%" PRIu64, cmb_buffer_space(b));
            if (cmb_buffer_level(b) > o->cap) vline("C11", "%s level %" PRIu64 " > capacity", o->name, cmb_buffer_level(b));
            if (cmb_buffer_space(b) != o->cap - cmb_buffer_level(b)) vline("C11", "%s space != capacity - level", o->name);
            break;
        }
        case O_OQ: {
            struct cmb_objectqueue *q = o->ptr;
            snprintf(key, sizeof key, "%s.n", o->name); snap_put(key, "%" PRIu64, cmb_objectqueue_length(q));
            snprintf(key, sizeof key, "%s.s", o->name); snap_put(key, "%" PRIu64, cmb_objectqueue_space(q));
            if (cmb_objectqueue_length(q) > o->cap) vline("C12", "%s length %" PRIu64 " > capacity", o->name, cmb_objectqueue_length(q));
            break;
        }
        case O_PQ: {
            struct cmb_priorityqueue *q = o->ptr;
            snprintf(key, sizeof key, "%s.n", o->name); snap_put(key, "%" PRIu64, cmb_priorityqueue_length(q));
            snprintf(key, sizeof key, "%s.s", o->name); snap_put(key, "%" PRIu64, cmb_priorityqueue_space(q));
            if (cmb_priorityqueue_length(q) > o->cap) vline("C12", "%s length %" PRIu64 " > capacity", o->name, cmb_priorityqueue_length(q));
            break;
        }
        case O_COND:
            break;
        }
    }
    for (int p = 0; p < nprocs; p++) {
        struct sproc *sp = &procs[p];
        if (sp->is_tap) continue;
        const enum cmb_process_state st = cmb_process_status(sp->p);
        snprintf(key, sizeof key, "p%d.st", p);
        snap_put(key, "%c", st == CMB_PROCESS_CREATED ? 'C' : (st == CMB_PROCESS_RUNNING ? 'R' : 'F'));
        snprintf(key, sizeof key, "p%d.pr", p); snap_put(key, "%" PRIi64, cmb_process_priority(sp->p));
        snprintf(key, sizeof key, "p%d.ev", p);
        snap_put(key, "%" PRIu64, cmb_event_pattern_count(CMB_ANY_ACTION, sp->p, CMB_ANY_OBJECT));
        if (sp->amnt_active) { snprintf(key, sizeof key, "p%d.am", p); snap_put(key, "%" PRIu64, sp->amnt); }
        if (st == CMB_PROCESS_FINISHED) {
            snprintf(key, sizeof key, "p%d.xv", p);
            snap_put(key, "%" PRIi64, (int64_t)(intptr_t)cmb_process_exit_value(sp->p));
        }
    }
    snap_put("q", "%" PRIu64, cmb_event_queue_count());
    tr("S %" PRIu64 " %a%s\n", evno, cmb_time(), snapbuf);
    /* one write per event: if the library crashes later, the history up to here is on record */
    fflush(tf);
}

/* ------------------------------------------------------------ actions -- */

static bool do_nonblocking(const struct sop *o, int pid, int opi, char hdr);

static void user_event_action(void *subj, void *obj)
{
    (void)obj;
    const int k = (int)(intptr_t)subj;
    tr("U %" PRIu64 " %" PRIu64 " %a %d\n", ++seqno, evno, cmb_time(), k);
    /* what the event does besides happening: it may end the wait (or the life) of its own waiters */
    const int act = uevs[k].act;
    if (act >= 0 && act < MAXACT) {
        for (int j = 0; j < nactops[act]; j++) (void)do_nonblocking(&actops[act][j], -1, 1000 + k, 'X');
    }
}

static void filler_action(void *subj, void *obj) { (void)subj; (void)obj; }

static void learn_losses(const int pid)
{
    struct sproc *sp = &procs[pid];
    for (int k = 0; k < nobjs; k++) {
        if (objs[k].kind == O_RES && sp->mine_res[k]
            && cmb_resource_held_by_process(objs[k].ptr, sp->p) == 0u) {
            sp->mine_res[k] = false;
            tr("L %" PRIu64 " %" PRIu64 " %a %d %s 1\n", ++seqno, evno, cmb_time(), pid, objs[k].name);
        }
        else if (objs[k].kind == O_POOL && sp->mine_pool[k] > 0u) {
            const uint64_t h = cmb_resourcepool_held_by_process(objs[k].ptr, sp->p);
            if (h < sp->mine_pool[k]) {
                tr("L %" PRIu64 " %" PRIu64 " %a %d %s %" PRIu64 "\n", ++seqno, evno, cmb_time(), pid,
                   objs[k].name, sp->mine_pool[k] - h);
                sp->mine_pool[k] = h;
            }
        }
    }
}

/*
 * Non-blocking operations, usable from a process script (pid >= 0) and from a
 * dispatcher-level command (pid == -1). Returns false if skipped.
 */
static bool do_nonblocking(const struct sop *o, const int pid, const int opi, const char hdr)
{
#define SKIP(reason) do { tr("K %" PRIu64 " %" PRIu64 " %a %d %d %s %s\n", ++seqno, evno, cmb_time(), pid, opi, \
                             opnames[o->code], reason); return false; } while (0)
#define CALLHDR() tr("%c %" PRIu64 " %" PRIu64 " %a %d %d %s", hdr, ++seqno, evno, cmb_time(), pid, opi, opnames[o->code])
    struct sproc *me = (pid >= 0) ? &procs[pid] : NULL;
    struct sproc *tg = (o->tgt >= 0 && o->tgt < nuserprocs) ? &procs[o->tgt] : NULL;
    switch (o->code) {
    case OP_RELEASE: {
        if (me == NULL) SKIP("not-a-process");
        struct cmb_resource *r = objs[o->obj].ptr;
        const bool lib = cmb_resource_held_by_process(r, me->p) != 0u;
        if (!me->mine_res[o->obj]) SKIP(lib ? "library-says-held-but-never-acquired" : "not-held");
        if (!lib && !trusting) { me->mine_res[o->obj] = false; SKIP("lost-without-notice"); }
        CALLHDR(); tr(" %s\n", objs[o->obj].name);
        cmb_resource_release(r);
        me->mine_res[o->obj] = false;
        log_ground_for_object(o->obj, "after-release");
        return true;
    }
    case OP_PREL: {
        if (me == NULL) SKIP("not-a-process");
        struct cmb_resourcepool *pl = objs[o->obj].ptr;
        const uint64_t lib = cmb_resourcepool_held_by_process(pl, me->p);
        uint64_t n = o->u1;
        if (me->mine_pool[o->obj] == 0u) SKIP(lib ? "library-says-held-but-never-acquired" : "not-held");
        if (lib < me->mine_pool[o->obj] && !trusting) { me->mine_pool[o->obj] = lib; SKIP("lost-without-notice"); }
        if (n > me->mine_pool[o->obj]) n = me->mine_pool[o->obj];
        if (n == 0u) SKIP("zero-amount");
        CALLHDR(); tr(" %s %" PRIu64 "\n", objs[o->obj].name, n);
        cmb_resourcepool_release(pl, n);
        me->mine_pool[o->obj] -= n;
        log_ground_for_object(o->obj, "after-release");
        return true;
    }
    case OP_TIMER_ADD: case OP_TIMER_SET: {
        if (me == NULL) SKIP("not-a-process");
        if (o->i1 == 0) SKIP("signal-0");
        const uint64_t h = (o->code == OP_TIMER_ADD) ? cmb_process_timer_add(me->p, o->d1, o->i1)
                                                     : cmb_process_timer_set(me->p, o->d1, o->i1);
        if (me->ntimers == me->captimers) {
            me->captimers = me->captimers ? me->captimers * 2 : 16;
            me->timers = realloc(me->timers, (size_t)me->captimers * sizeof *me->timers);
        }
        me->timers[me->ntimers++] = h;
        CALLHDR(); tr(" %a %" PRIi64 " -> %" PRIu64 "\n", o->d1, o->i1, h);
        return true;
    }
    case OP_TIMER_CANCEL: {
        if (me == NULL) SKIP("not-a-process");
        if (me->ntimers == 0) SKIP("no-timer");
        const uint64_t h = me->timers[(uint64_t)o->i1 % (uint64_t)me->ntimers];
        const bool r = cmb_process_timer_cancel(me->p, h);
        CALLHDR(); tr(" %" PRIu64 " -> %d\n", h, r ? 1 : 0);
        return true;
    }
    case OP_TIMERS_CLEAR:
        if (me == NULL) SKIP("not-a-process");
        CALLHDR(); tr("\n");
        cmb_process_timers_clear(me->p);
        return true;
    /* timers of ANOTHER process ("pp: usually the calling process itself"). Not offered: clearing all
     * timers of a process inside cmb_process_hold, whose own wake-up is one of them (DESIGN par. 2.1) */
    case OP_FTIMER_ADD: {
        if (tg == NULL) SKIP("no-target");
        if (o->i1 == 0) SKIP("signal-0");
        if (cmb_process_status(tg->p) != CMB_PROCESS_RUNNING) SKIP("target-not-running");
        const uint64_t h = cmb_process_timer_add(tg->p, o->d1, o->i1);
        if (tg->ntimers == tg->captimers) {
            tg->captimers = tg->captimers ? tg->captimers * 2 : 16;
            tg->timers = realloc(tg->timers, (size_t)tg->captimers * sizeof *tg->timers);
        }
        tg->timers[tg->ntimers++] = h;
        CALLHDR(); tr(" %d %a %" PRIi64 " -> %" PRIu64 "\n", o->tgt, o->d1, o->i1, h);
        return true;
    }
    case OP_FTIMER_CANCEL: {
        if (tg == NULL) SKIP("no-target");
        if (cmb_process_status(tg->p) != CMB_PROCESS_RUNNING) SKIP("target-not-running");
        if (tg->ntimers == 0) SKIP("no-timer");
        const uint64_t h = tg->timers[(uint64_t)o->i1 % (uint64_t)tg->ntimers];
        const bool r = cmb_process_timer_cancel(tg->p, h);
        CALLHDR(); tr(" %d %" PRIu64 " -> %d\n", o->tgt, h, r ? 1 : 0);
        return true;
    }
    case OP_FTIMERS_CLEAR:
        if (tg == NULL) SKIP("no-target");
        if (cmb_process_status(tg->p) != CMB_PROCESS_RUNNING) SKIP("target-not-running");
        if (tg->blocked_op >= 0 && tg->blocked_code == OP_HOLD) SKIP("target-holding");
        CALLHDR(); tr(" %d\n", o->tgt);
        cmb_process_timers_clear(tg->p);
        return true;
    case OP_CUNSUB: case OP_CSUB: {
        struct obslink *lk = &links[o->i1];
        struct cmb_condition *cv = objs[lk->cond].ptr;
        struct cmb_resourceguard *g = guard_of(lk->obj, lk->side);
        if (o->code == OP_CSUB) {
            if (lk->active) SKIP("already-subscribed");
            CALLHDR(); tr(" %s %s.%d\n", objs[lk->cond].name, objs[lk->obj].name, lk->side);
            cmb_condition_subscribe(cv, g);
            lk->active = true;
        }
        else {
            const bool r = cmb_condition_unsubscribe(cv, g);
            CALLHDR(); tr(" %s %s.%d -> %d\n", objs[lk->cond].name, objs[lk->obj].name, lk->side, r ? 1 : 0);
            lk->active = false;
        }
        return true;
    }
    case OP_KCANCEL: case OP_KREPRIO: case OP_KPOS: {
        struct sobj *ob = &objs[o->obj];
        struct cmb_priorityqueue *q = ob->ptr;
        if (ob->nh == 0) SKIP("no-handle");
        const uint64_t h = ob->handles[(uint64_t)o->i1 % (uint64_t)ob->nh];
        if (o->code == OP_KCANCEL) {
            const bool r = cmb_priorityqueue_cancel(q, h);
            CALLHDR(); tr(" %s %" PRIu64 " -> %d\n", ob->name, h, r ? 1 : 0);
            
        }
        else if (o->code == OP_KREPRIO) {
            if (!cmi_hashheap_is_enqueued(&q->queue, h)) SKIP("handle-not-queued");
            cmb_priorityqueue_reprioritize(q, h, o->i2);
            CALLHDR(); tr(" %s %" PRIu64 " %" PRIi64 "\n", ob->name, h, o->i2);
        }
        else {
            const uint64_t r = cmb_priorityqueue_position(q, h);
            CALLHDR(); tr(" %s %" PRIu64 " -> %" PRIu64 "\n", ob->name, h, r);
        }
        return true;
    }
    case OP_OPOS: {
        const uint64_t r = cmb_objectqueue_position(objs[o->obj].ptr, (void *)(uintptr_t)o->i1);
        CALLHDR(); tr(" %s %" PRIi64 " -> %" PRIu64 "\n", objs[o->obj].name, o->i1, r);
        return true;
    }
    case OP_CSIGNAL: {
        log_ground(o->obj, "explicit", "-");
        CALLHDR(); tr(" %s\n", objs[o->obj].name);
        const bool r = cmb_condition_signal(objs[o->obj].ptr);
        tr("R %" PRIu64 " %" PRIu64 " %a %d %d %d\n", ++seqno, evno, cmb_time(), pid, opi, r ? 1 : 0);
        return true;
    }
    case OP_CCANCEL: case OP_CREMOVE: {
        if (tg == NULL) SKIP("no-target");
        CALLHDR(); tr(" %s %d", objs[o->obj].name, o->tgt);
        const bool r = (o->code == OP_CCANCEL) ? cmb_condition_cancel(objs[o->obj].ptr, tg->p)
                                               : cmb_condition_remove(objs[o->obj].ptr, tg->p);
        tr(" -> %d\n", r ? 1 : 0);
        return true;
    }
    case OP_CTRSET:
        CALLHDR(); tr(" %d %" PRIi64 "\n", o->obj, o->i1);
        counters[o->obj % MAXCTR] = o->i1;
        return true;
    case OP_INTERRUPT: {
        if (tg == NULL) SKIP("no-target");
        if (o->i1 == 0) SKIP("signal-0");
        if (cmb_process_status(tg->p) != CMB_PROCESS_RUNNING) SKIP("target-not-running");
        CALLHDR(); tr(" %d %" PRIi64 " %" PRIi64 "\n", o->tgt, o->i1, o->i2);
        cmb_process_interrupt(tg->p, o->i1, o->i2);
        return true;
    }
    case OP_RESUME: {
        if (tg == NULL) SKIP("no-target");
        if (cmb_process_status(tg->p) != CMB_PROCESS_RUNNING) SKIP("target-not-running");
        if (tg->blocked_op < 0 || tg->blocked_code != OP_YIELD) SKIP("target-not-in-yield");
        if (o->tgt == pid) SKIP("self");
        if (o->i1 == 0 && cmb_event_pattern_count(CMB_ANY_ACTION, tg->p, CMB_ANY_OBJECT) != 0u) SKIP("target-has-pending-events");
        CALLHDR(); tr(" %d %" PRIi64 "\n", o->tgt, o->i1);
        cmb_process_resume(tg->p, o->i1);
        return true;
    }
    case OP_STOP: {
        if (tg == NULL) SKIP("no-target");
        const bool running = cmb_process_status(tg->p) == CMB_PROCESS_RUNNING;
        bool held[MAXOBJ] = { false };
        for (int k = 0; k < nobjs; k++) {
            if (objs[k].kind == O_RES) held[k] = cmb_resource_held_by_process(objs[k].ptr, tg->p) != 0u;
            else if (objs[k].kind == O_POOL) held[k] = cmb_resourcepool_held_by_process(objs[k].ptr, tg->p) != 0u;
        }
        CALLHDR(); tr(" %d %" PRIi64 " running=%d\n", o->tgt, o->i1, running ? 1 : 0);
        if (running) note_drops(tg->p);
        if (o->tgt == pid) {
            /* stopping oneself does not return */
            me->blocked_op = -1;
        }
        cmb_process_stop(tg->p, (void *)(intptr_t)o->i1);
        if (running) {
            tg->blocked_op = -1;
            tg->amnt_active = false;
            /* no ground truth here: several holdings may be dropped one after the other, the state
             * after the stop is not the state at each of those signals (the tap sees them exactly) */
            (void)held;
        }
        return true;
    }
    case OP_SETPRIO:
        if (tg == NULL) SKIP("no-target");
        CALLHDR(); tr(" %d %" PRIi64 "\n", o->tgt, o->i1);
        cmb_process_priority_set(tg->p, o->i1);
        return true;
    case OP_START: {
        if (tg == NULL) SKIP("no-target");
        if (cmb_process_status(tg->p) == CMB_PROCESS_RUNNING) SKIP("target-running");
        if (cmb_event_pattern_count(CMB_ANY_ACTION, tg->p, CMB_ANY_OBJECT) != 0u) SKIP("start-already-pending");
        CALLHDR(); tr(" %d\n", o->tgt);
        cmb_process_start(tg->p);
        return true;
    }
    case OP_USCHED: {
        if (nuevs == capuevs) {
            capuevs = capuevs ? capuevs * 2 : 32;
            uevs = realloc(uevs, (size_t)capuevs * sizeof *uevs);
        }
        const uint64_t h = cmb_event_schedule(user_event_action, (void *)(intptr_t)nuevs, NULL,
                                              cmb_time() + o->d1, o->i1);
        uevs[nuevs].handle = h;
        uevs[nuevs].act = (int)o->i2 - 1;
        CALLHDR(); tr(" %d %a %" PRIi64 " -> %" PRIu64 "\n", nuevs, cmb_time() + o->d1, o->i1, h);
        nuevs++;
        return true;
    }
    case OP_UCANCEL: case OP_URESCHED: {
        if (nuevs == 0) SKIP("no-user-event");
        const int k = (int)((uint64_t)o->i1 % (uint64_t)nuevs);
        if (o->code == OP_UCANCEL) {
            const bool r = cmb_event_cancel(uevs[k].handle);
            CALLHDR(); tr(" %d -> %d\n", k, r ? 1 : 0);
        }
        else {
            if (!cmb_event_is_scheduled(uevs[k].handle)) SKIP("not-scheduled");
            cmb_event_reschedule(uevs[k].handle, cmb_time() + o->d1);
            CALLHDR(); tr(" %d %a\n", k, cmb_time() + o->d1);
        }
        return true;
    }
    case OP_REC_ON: case OP_REC_OFF: {
        const bool on = (o->code == OP_REC_ON);
        if (objs[o->obj].kind == O_COND) SKIP("not-recordable");
        if (objs[o->obj].recording == on) SKIP("already");
        rec_switch(o->obj, on);
        CALLHDR(); tr(" %s n=%" PRIu64 " val=%a\n", objs[o->obj].name,
                      cmb_timeseries_count(history_of(o->obj)), current_value(o->obj));
        return true;
    }
    case OP_FILL_TO: {
        /* bring the event queue to exactly (i1 - i2) entries with far-future fillers */
        uint64_t target = (uint64_t)o->i1;
        if (target == 0u) {
            /* the capacity the queue has now: the smallest power of two >= 8 that holds the count */
            target = 8u;
            while (target < cmb_event_queue_count()) target *= 2u;
        }
        const uint64_t want = target - (uint64_t)o->i2;
        uint64_t added = 0;
        while (cmb_event_queue_count() < want && added < 100000u) {
            (void)cmb_event_schedule(filler_action, NULL, NULL, 1.0e9 + (double)added, 0);
            added++;
        }
        CALLHDR(); tr(" %" PRIu64 " added=%" PRIu64 "\n", want, added);
        return true;
    }
    case OP_NOP:
        return true;
    default:
        SKIP("not-allowed-here");
    }
#undef SKIP
#undef CALLHDR
}

static void cmd_action(void *subj, void *obj)
{
    (void)obj;
    const struct scmd *c = subj;
    (void)do_nonblocking(&c->op, -1, (int)(c - cmds), 'X');
}

static void start_cmd_action(void *subj, void *obj)
{
    (void)obj;
    struct sproc *sp = subj;
    /* same validity filter as the start op: somebody may have started it already */
    if (cmb_process_status(sp->p) == CMB_PROCESS_RUNNING
        || cmb_event_pattern_count(CMB_ANY_ACTION, sp->p, CMB_ANY_OBJECT) != 0u) {
        tr("K %" PRIu64 " %" PRIu64 " %a -1 -1 start already-started\n", ++seqno, evno, cmb_time());
        return;
    }
    tr("X %" PRIu64 " %" PRIu64 " %a -1 -1 start %d\n", ++seqno, evno, cmb_time(), (int)(sp - procs));
    cmb_process_start(sp->p);
}

/* ---------------------------------------------------- process scripts -- */

#define RET(sig) tr("R %" PRIu64 " %" PRIu64 " %a %d %d %" PRIi64, ++seqno, evno, cmb_time(), pid, sp->pc, (int64_t)(sig))

static void *proc_main(struct cmb_process *me, void *ctx)
{
    struct sproc *sp = ctx;
    const int pid = (int)(sp - procs);
    sp->runs++;
    sp->blocked_op = -1;
    sp->amnt_active = false;
    sp->ntimers = 0;
    memset(sp->mine_res, 0, sizeof sp->mine_res);
    memset(sp->mine_pool, 0, sizeof sp->mine_pool);
    tr("B %" PRIu64 " %" PRIu64 " %a %d %d self=%d ctx=%d\n", ++seqno, evno, cmb_time(), pid, sp->runs,
       me == sp->p ? 1 : 0, cmb_process_context(me) == ctx ? 1 : 0);

    int reps_done = 0;
    sp->pc = 0;
    while (sp->pc < sp->nops) {
        const struct sop *o = &sp->ops[sp->pc];
        int64_t sig = 0;
#define CALL() do { HDR('C', pid, sp->pc); tr(" %s", opnames[o->code]); } while (0)
#define BLOCK_BEGIN() do { sp->blocked_op = sp->pc; sp->blocked_code = o->code; } while (0)
#define BLOCK_END() do { sp->blocked_op = -1; if (sig == CMB_PROCESS_PREEMPTED) learn_losses(pid); } while (0)
#define SKIPP(reason) do { tr("K %" PRIu64 " %" PRIu64 " %a %d %d %s %s\n", ++seqno, evno, cmb_time(), pid, sp->pc, \
                              opnames[o->code], reason); goto next_op; } while (0)
        switch (o->code) {
        case OP_HOLD:
            CALL(); tr(" %a\n", o->d1);
            BLOCK_BEGIN(); sig = cmb_process_hold(o->d1); BLOCK_END();
            RET(sig); tr("\n");
            break;
        case OP_YIELD:
            CALL(); tr("\n");
            BLOCK_BEGIN(); sig = cmb_process_yield(); BLOCK_END();
            RET(sig); tr("\n");
            break;
        case OP_ACQUIRE: case OP_PREEMPT: {
            struct cmb_resource *r = objs[o->obj].ptr;
            if (sp->mine_res[o->obj]) SKIPP("already-held");
            CALL(); tr(" %s\n", objs[o->obj].name);
            BLOCK_BEGIN();
            sig = (o->code == OP_ACQUIRE) ? cmb_resource_acquire(r) : cmb_resource_preempt(r);
            if (sig == CMB_PROCESS_SUCCESS) sp->mine_res[o->obj] = true;
            BLOCK_END();
            RET(sig); tr("\n");
            break;
        }
        case OP_PACQ: case OP_PPRE: {
            struct cmb_resourcepool *pl = objs[o->obj].ptr;
            uint64_t n = o->u1;
            if (n == 0u) n = 1u;
            if (n > objs[o->obj].cap) n = objs[o->obj].cap;
            if (sp->mine_pool[o->obj] + n > objs[o->obj].cap) SKIPP("would-exceed-capacity");
            const uint64_t lib = cmb_resourcepool_held_by_process(pl, sp->p);
            if (lib != sp->mine_pool[o->obj]) { sp->mine_pool[o->obj] = lib; SKIPP("holding-disagrees"); }
            CALL(); tr(" %s %" PRIu64 " have=%" PRIu64 "\n", objs[o->obj].name, n, sp->mine_pool[o->obj]);
            BLOCK_BEGIN();
            sig = (o->code == OP_PACQ) ? cmb_resourcepool_acquire(pl, n) : cmb_resourcepool_preempt(pl, n);
            if (sig == CMB_PROCESS_SUCCESS) sp->mine_pool[o->obj] += n;
            BLOCK_END();
            RET(sig); tr(" held=%" PRIu64 "\n", cmb_resourcepool_held_by_process(pl, sp->p));
            break;
        }
        case OP_BPUT: case OP_BGET: {
            struct cmb_buffer *b = objs[o->obj].ptr;
            if (o->code == OP_BPUT && o->u1 == 0u) SKIPP("zero-put");
            sp->amnt = o->u1;
            sp->amnt_active = true;
            { char key[24]; snprintf(key, sizeof key, "p%d.am", pid); snap_invalidate(key); }
            CALL(); tr(" %s %" PRIu64 "\n", objs[o->obj].name, o->u1);
            BLOCK_BEGIN();
            sig = (o->code == OP_BPUT) ? cmb_buffer_put(b, &sp->amnt) : cmb_buffer_get(b, &sp->amnt);
            BLOCK_END();
            sp->amnt_active = false;
            RET(sig); tr(" %" PRIu64 "\n", sp->amnt);
            if (sig == CMB_PROCESS_SUCCESS) log_ground_for_object(o->obj, (o->code == OP_BPUT) ? "after-put" : "after-get");
            break;
        }
        case OP_OPUT: {
            CALL(); tr(" %s %" PRIi64 "\n", objs[o->obj].name, o->i1);
            BLOCK_BEGIN(); sig = cmb_objectqueue_put(objs[o->obj].ptr, (void *)(intptr_t)o->i1); BLOCK_END();
            RET(sig); tr("\n");
            if (sig == CMB_PROCESS_SUCCESS) log_ground_for_object(o->obj, "after-put");
            break;
        }
        case OP_OGET: {
            void *got = (void *)(intptr_t)-777;
            CALL(); tr(" %s\n", objs[o->obj].name);
            BLOCK_BEGIN(); sig = cmb_objectqueue_get(objs[o->obj].ptr, &got); BLOCK_END();
            RET(sig); tr(" %" PRIi64 "\n", (int64_t)(intptr_t)got);
            if (sig == CMB_PROCESS_SUCCESS) log_ground_for_object(o->obj, "after-get");
            break;
        }
        case OP_KPUT: {
            uint64_t h = 0;
            CALL(); tr(" %s %" PRIi64 " %" PRIi64 "\n", objs[o->obj].name, o->i1, o->i2);
            BLOCK_BEGIN();
            sig = cmb_priorityqueue_put(objs[o->obj].ptr, (void *)(intptr_t)o->i1, o->i2, &h);
            BLOCK_END();
            if (sig == CMB_PROCESS_SUCCESS) {
                struct sobj *ob = &objs[o->obj];
                if (ob->nh == ob->caph) {
                    ob->caph = ob->caph ? ob->caph * 2 : 16;
                    ob->handles = realloc(ob->handles, (size_t)ob->caph * sizeof *ob->handles);
                }
                ob->handles[ob->nh++] = h;
            }
            RET(sig); tr(" %" PRIu64 "\n", h);
            if (sig == CMB_PROCESS_SUCCESS) log_ground_for_object(o->obj, "after-put");
            break;
        }
        case OP_KGET: {
            void *got = (void *)(intptr_t)-777;
            CALL(); tr(" %s\n", objs[o->obj].name);
            BLOCK_BEGIN(); sig = cmb_priorityqueue_get(objs[o->obj].ptr, &got); BLOCK_END();
            RET(sig); tr(" %" PRIi64 "\n", (int64_t)(intptr_t)got);
            if (sig == CMB_PROCESS_SUCCESS) log_ground_for_object(o->obj, "after-get");
            break;
        }
        case OP_CWAIT: {
            sp->pred = o->pred;
            sp->pred.pid = pid;
            sp->pred.cond = o->obj;
            CALL(); tr(" %s %d %d %" PRIi64 " now=%d\n", objs[o->obj].name, (int)o->pred.kind, o->pred.obj,
                       o->pred.arg, eval_pred(&sp->pred) ? 1 : 0);
            BLOCK_BEGIN(); sig = cmb_condition_wait(objs[o->obj].ptr, harness_demand, &sp->pred); BLOCK_END();
            RET(sig); tr(" now=%d\n", eval_pred(&sp->pred) ? 1 : 0);
            break;
        }
        case OP_WAIT_PROC: {
            if (o->tgt < 0 || o->tgt >= nuserprocs || o->tgt == pid) SKIPP("bad-target");
            const enum cmb_process_state st = cmb_process_status(procs[o->tgt].p);
            CALL(); tr(" %d status=%d\n", o->tgt, (int)st);
            BLOCK_BEGIN(); sig = cmb_process_wait_process(procs[o->tgt].p); BLOCK_END();
            RET(sig); tr("\n");
            break;
        }
        case OP_WAIT_EV: {
            if (nuevs == 0) SKIPP("no-user-event");
            const int k = (int)((uint64_t)o->i1 % (uint64_t)nuevs);
            if (!cmb_event_is_scheduled(uevs[k].handle)) SKIPP("not-scheduled");
            CALL(); tr(" %d\n", k);
            BLOCK_BEGIN(); sig = cmb_process_wait_event(uevs[k].handle); BLOCK_END();
            RET(sig); tr("\n");
            break;
        }
        case OP_EXIT:
            tr("Z %" PRIu64 " %" PRIu64 " %a %d exit %" PRIi64 "\n", ++seqno, evno, cmb_time(), pid, o->i1);
            note_drops(me);
            cmb_process_exit((void *)(intptr_t)o->i1);
            break;      /* not reached */
        case OP_RETURN:
            tr("Z %" PRIu64 " %" PRIu64 " %a %d return %" PRIi64 "\n", ++seqno, evno, cmb_time(), pid, o->i1);
            note_drops(me);
            return (void *)(intptr_t)o->i1;
        default:
            (void)do_nonblocking(o, pid, sp->pc, 'C');
            break;
        }
next_op:
        /* stay on this op until it has been executed o->repeat times */
        if (o->repeat > 1 && ++reps_done < o->repeat) continue;
        reps_done = 0;
        sp->pc++;
    }
    tr("Z %" PRIu64 " %" PRIu64 " %a %d return 0\n", ++seqno, evno, cmb_time(), pid);
    note_drops(me);
    return NULL;
}

/* ------------------------------------------------------------ parsing -- */

static int find_obj(const char *name)
{
    for (int k = 0; k < nobjs; k++) if (strcmp(objs[k].name, name) == 0) return k;
    return -1;
}

static int parse_proc(const char *s)
{
    if (s[0] != 'p') return -1;
    const int k = atoi(s + 1);
    return (k >= 0 && k < MAXPROC) ? k : -1;
}

static int need_kind(const int obj, const enum okind kind) { return (obj >= 0 && objs[obj].kind == kind) ? 0 : -1; }

static int parse_side(char *s, int *obj, int *side);

/* parse "name args.." into *o; returns 0 or -1 */
static int parse_op(char **tok, int nt, struct sop *o)
{
    int repeat = 0;
    if (nt >= 3 && strcmp(tok[0], "rep") == 0) {
        repeat = (int)cimx_u64(tok[1]);
        if (repeat < 1 || repeat > 100000) return -1;
        tok += 2;
        nt -= 2;
    }
    memset(o, 0, sizeof *o);
    o->repeat = repeat;
    o->obj = -1; o->tgt = -1;
    int code = -1;
    for (int k = 0; k < OP__COUNT; k++) if (strcmp(tok[0], opnames[k]) == 0) code = k;
    if (code < 0) return -1;
    o->code = (enum opcode)code;
#define NEED(n) do { if (nt < (n) + 1) return -1; } while (0)
    switch (o->code) {
    case OP_HOLD: NEED(1); o->d1 = cimx_dbl(tok[1]); if (!(o->d1 >= 0.0)) return -1; break;
    case OP_YIELD: case OP_TIMERS_CLEAR: case OP_NOP: break;
    case OP_ACQUIRE: case OP_PREEMPT: case OP_RELEASE:
        NEED(1); o->obj = find_obj(tok[1]); if (need_kind(o->obj, O_RES)) return -1; break;
    case OP_PACQ: case OP_PPRE: case OP_PREL:
        NEED(2); o->obj = find_obj(tok[1]); if (need_kind(o->obj, O_POOL)) return -1; o->u1 = cimx_u64(tok[2]); break;
    case OP_BPUT: case OP_BGET:
        NEED(2); o->obj = find_obj(tok[1]); if (need_kind(o->obj, O_BUF)) return -1; o->u1 = cimx_u64(tok[2]); break;
    case OP_OPUT: case OP_OPOS:
        NEED(2); o->obj = find_obj(tok[1]); if (need_kind(o->obj, O_OQ)) return -1; o->i1 = cimx_i64(tok[2]); break;
    case OP_OGET: NEED(1); o->obj = find_obj(tok[1]); if (need_kind(o->obj, O_OQ)) return -1; break;
    case OP_KPUT:
        NEED(3); o->obj = find_obj(tok[1]); if (need_kind(o->obj, O_PQ)) return -1;
        o->i1 = cimx_i64(tok[2]); o->i2 = cimx_i64(tok[3]); break;
    case OP_KGET: NEED(1); o->obj = find_obj(tok[1]); if (need_kind(o->obj, O_PQ)) return -1; break;
    case OP_KCANCEL: case OP_KPOS:
        NEED(2); o->obj = find_obj(tok[1]); if (need_kind(o->obj, O_PQ)) return -1; o->i1 = cimx_i64(tok[2]); break;
    case OP_KREPRIO:
        NEED(3); o->obj = find_obj(tok[1]); if (need_kind(o->obj, O_PQ)) return -1;
        o->i1 = cimx_i64(tok[2]); o->i2 = cimx_i64(tok[3]); break;
    case OP_CWAIT: {
        NEED(4); o->obj = find_obj(tok[1]); if (need_kind(o->obj, O_COND)) return -1;
        static const char *const pk[] = { "false", "true", "ctr", "resfree", "poolavail", "buflevel", "qlen" };
        int kind = -1;
        for (int k = 0; k < 7; k++) if (strcmp(tok[2], pk[k]) == 0) kind = k;
        if (kind < 0) return -1;
        o->pred.kind = (enum predkind)kind;
        o->pred.arg = cimx_i64(tok[4]);
        if (kind == PR_CTR) o->pred.obj = (int)(cimx_u64(tok[3]) % MAXCTR);
        else if (kind >= PR_RESFREE) {
            o->pred.obj = find_obj(tok[3]);
            if (o->pred.obj < 0) return -1;
            const enum okind ok = objs[o->pred.obj].kind;
            if (kind == PR_RESFREE && ok != O_RES) return -1;
            if (kind == PR_POOLAVAIL && ok != O_POOL) return -1;
            if (kind == PR_BUFLEVEL && ok != O_BUF) return -1;
            if (kind == PR_QLEN && ok != O_OQ && ok != O_PQ) return -1;
        }
        break;
    }
    case OP_WAIT_PROC: case OP_START: NEED(1); o->tgt = parse_proc(tok[1]); if (o->tgt < 0) return -1; break;
    case OP_WAIT_EV: case OP_TIMER_CANCEL: case OP_UCANCEL: NEED(1); o->i1 = cimx_i64(tok[1]); break;
    case OP_TIMER_ADD: case OP_TIMER_SET:
        NEED(2); o->d1 = cimx_dbl(tok[1]); o->i1 = cimx_i64(tok[2]); if (!(o->d1 >= 0.0)) return -1; break;
    case OP_CSIGNAL: NEED(1); o->obj = find_obj(tok[1]); if (need_kind(o->obj, O_COND)) return -1; break;
    case OP_CCANCEL: case OP_CREMOVE:
        NEED(2); o->obj = find_obj(tok[1]); if (need_kind(o->obj, O_COND)) return -1;
        o->tgt = parse_proc(tok[2]); if (o->tgt < 0) return -1; break;
    case OP_CTRSET: NEED(2); o->obj = (int)(cimx_u64(tok[1]) % MAXCTR); o->i1 = cimx_i64(tok[2]); break;
    case OP_INTERRUPT:
        NEED(3); o->tgt = parse_proc(tok[1]); if (o->tgt < 0) return -1;
        o->i1 = cimx_i64(tok[2]); o->i2 = cimx_i64(tok[3]); break;
    case OP_RESUME: case OP_STOP: case OP_SETPRIO:
        NEED(2); o->tgt = parse_proc(tok[1]); if (o->tgt < 0) return -1; o->i1 = cimx_i64(tok[2]); break;
    case OP_USCHED:
        NEED(2); o->d1 = cimx_dbl(tok[1]); o->i1 = cimx_i64(tok[2]); if (!(o->d1 >= 0.0)) return -1;
        o->i2 = 0;          /* usched d prio [act K]: i2 = K + 1 */
        if (nt >= 5 && strcmp(tok[3], "act") == 0) o->i2 = cimx_i64(tok[4]) + 1;
        break;
    case OP_URESCHED: NEED(2); o->i1 = cimx_i64(tok[1]); o->d1 = cimx_dbl(tok[2]); if (!(o->d1 >= 0.0)) return -1; break;
    case OP_REC_ON: case OP_REC_OFF: NEED(1); o->obj = find_obj(tok[1]); if (o->obj < 0) return -1; break;
    case OP_FILL_TO: NEED(2); o->i1 = cimx_i64(tok[1]); o->i2 = cimx_i64(tok[2]); break;
    case OP_FTIMER_ADD:
        NEED(3); o->tgt = parse_proc(tok[1]); if (o->tgt < 0) return -1;
        o->d1 = cimx_dbl(tok[2]); o->i1 = cimx_i64(tok[3]); if (!(o->d1 >= 0.0)) return -1; break;
    case OP_FTIMER_CANCEL:
        NEED(2); o->tgt = parse_proc(tok[1]); if (o->tgt < 0) return -1; o->i1 = cimx_i64(tok[2]); break;
    case OP_FTIMERS_CLEAR: NEED(1); o->tgt = parse_proc(tok[1]); if (o->tgt < 0) return -1; break;
    case OP_CUNSUB: case OP_CSUB: {
        /* cunsub C0 R0 | csub C0 B0.rear : a link declared by an earlier "observe" line */
        NEED(2); o->obj = find_obj(tok[1]); if (need_kind(o->obj, O_COND)) return -1;
        int ob, side;
        if (parse_side(tok[2], &ob, &side) != 0) return -1;
        o->i1 = -1;
        for (int l = 0; l < nlinks; l++) if (links[l].cond == o->obj && links[l].obj == ob && links[l].side == side) o->i1 = l;
        if (o->i1 < 0) return -1;
        break;
    }
    case OP_EXIT: case OP_RETURN: NEED(1); o->i1 = cimx_i64(tok[1]); break;
    default: return -1;
    }
#undef NEED
    return 0;
}

static int parse_side(char *s, int *obj, int *side)
{
    *side = 0;
    char *dot = strchr(s, '.');
    if (dot) {
        *dot = '\0';
        *side = (strcmp(dot + 1, "rear") == 0 || strcmp(dot + 1, "1") == 0) ? 1 : 0;
    }
    *obj = find_obj(s);
    if (*obj < 0) return -1;
    const enum okind k = objs[*obj].kind;
    if (*side == 1 && (k == O_RES || k == O_POOL || k == O_COND)) return -1;
    return 0;
}

static int parse_case(char *text)
{
    char *cursor = text, *line, *tok[16];
    int curproc = -1;
    while ((line = cimx_next_line(&cursor)) != NULL) {
        const int nt = cimx_split(line, tok, 16);
        if (nt == 0) continue;
        if (strcmp(tok[0], "start") == 0 && nt >= 2) { start_time = cimx_dbl(tok[1]); continue; }
        if (strcmp(tok[0], "seed") == 0) continue;
        if (strcmp(tok[0], "trusting") == 0 && nt >= 2) { trusting = cimx_i64(tok[1]) != 0; continue; }
        static const char *const kinds[] = { "res", "pool", "buf", "oq", "pq", "cond" };
        int kind = -1;
        for (int k = 0; k < 6; k++) if (strcmp(tok[0], kinds[k]) == 0) kind = k;
        if (kind >= 0) {
            if (nt < 2 || nobjs == MAXOBJ) return -1;
            struct sobj *o = &objs[nobjs];
            memset(o, 0, sizeof *o);
            o->kind = (enum okind)kind;
            snprintf(o->name, sizeof o->name, "%s", tok[1]);
            o->cap = (nt >= 3) ? cimx_u64(tok[2]) : 1u;
            if (o->cap == 0u) return -1;
            nobjs++;
            continue;
        }
        if (strcmp(tok[0], "observe") == 0) {
            /* observe C0 R0 [subscribe] | observe C0 B0.rear */
            if (nt < 3 || nlinks == 64) return -1;
            struct obslink *l = &links[nlinks];
            l->cond = find_obj(tok[1]);
            if (need_kind(l->cond, O_COND)) return -1;
            if (parse_side(tok[2], &l->obj, &l->side)) return -1;
            if (l->obj == l->cond) return -1;
            if (objs[l->obj].kind == O_COND) return -1;          /* no cycles: conditions observe objects only */
            l->via_subscribe = (nt >= 4 && strcmp(tok[3], "subscribe") == 0);
            nlinks++;
            continue;
        }
        if (strcmp(tok[0], "record") == 0) {
            if (nt < 2) return -1;
            const int ob = find_obj(tok[1]);
            if (ob < 0 || objs[ob].kind == O_COND) return -1;
            objs[ob].recording = true;      /* switched on at setup */
            continue;
        }
        if (strcmp(tok[0], "proc") == 0) {
            /* proc p0 prio N start T [sprio N] */
            if (nt < 6 || nprocs == MAXPROC) return -1;
            if (parse_proc(tok[1]) != nprocs) return -1;
            struct sproc *sp = &procs[nprocs];
            memset(sp, 0, sizeof *sp);
            snprintf(sp->name, sizeof sp->name, "%s", tok[1]);
            sp->prio0 = cimx_i64(tok[3]);
            sp->start = (strcmp(tok[5], "never") == 0) ? -1.0 : cimx_dbl(tok[5]);
            sp->start_prio = (nt >= 8) ? cimx_i64(tok[7]) : 0;
            sp->blocked_op = -1;
            curproc = nprocs++;
            continue;
        }
        if (strcmp(tok[0], "op") == 0) {
            if (curproc < 0 || nt < 2) return -1;
            struct sproc *sp = &procs[curproc];
            if (sp->nops == sp->capops) {
                sp->capops = sp->capops ? sp->capops * 2 : 32;
                sp->ops = realloc(sp->ops, (size_t)sp->capops * sizeof *sp->ops);
            }
            if (parse_op(tok + 1, nt - 1, &sp->ops[sp->nops]) != 0) return -1;
            sp->nops++;
            continue;
        }
        if (strcmp(tok[0], "action") == 0) {
            if (nt < 3) return -1;
            const int64_t a = cimx_i64(tok[1]);
            if (a < 0 || a >= MAXACT || nactops[a] == MAXACTOPS) return -1;
            if (parse_op(tok + 2, nt - 2, &actops[a][nactops[a]]) != 0) return -1;
            nactops[a]++;
            continue;
        }
        if (strcmp(tok[0], "at") == 0) {
            if (nt < 4) return -1;
            if (ncmds == capcmds) {
                capcmds = capcmds ? capcmds * 2 : 32;
                cmds = realloc(cmds, (size_t)capcmds * sizeof *cmds);
            }
            struct scmd *c = &cmds[ncmds];
            c->t = cimx_dbl(tok[1]);
            c->prio = cimx_i64(tok[2]);
            if (parse_op(tok + 3, nt - 3, &c->op) != 0) return -1;
            ncmds++;
            continue;
        }
        return -1;
    }
    return 0;
}

/* ---------------------------------------------------------------- run -- */

static void create_objects(void)
{
    for (int k = 0; k < nobjs; k++) {
        struct sobj *o = &objs[k];
        switch (o->kind) {
        case O_RES: o->ptr = cmb_resource_create(); cmb_resource_initialize(o->ptr, o->name); o->cap = 1u; break;
        case O_POOL: o->ptr = cmb_resourcepool_create(); cmb_resourcepool_initialize(o->ptr, o->name, o->cap); break;
        case O_BUF: o->ptr = cmb_buffer_create(); cmb_buffer_initialize(o->ptr, o->name, o->cap); break;
        case O_OQ: o->ptr = cmb_objectqueue_create(); cmb_objectqueue_initialize(o->ptr, o->name, o->cap); break;
        case O_PQ: o->ptr = cmb_priorityqueue_create(); cmb_priorityqueue_initialize(o->ptr, o->name, o->cap); break;
        case O_COND: o->ptr = cmb_condition_create(); cmb_condition_initialize(o->ptr, o->name); break;
        }
    }
    /* observers: the condition first, then one tap per observed guard */
    for (int l = 0; l < nlinks; l++) {
        struct cmb_condition *cv = objs[links[l].cond].ptr;
        struct cmb_resourceguard *g = guard_of(links[l].obj, links[l].side);
        if (links[l].via_subscribe) cmb_condition_subscribe(cv, g);
        else cmb_resourceguard_register(g, &cv->guard);
        links[l].active = true;
    }
    for (int l = 0; l < nlinks; l++) {
        bool have = false;
        for (int t = 0; t < ntaps; t++) if (taps[t].obj == links[l].obj && taps[t].side == links[l].side) have = true;
        if (have || ntaps == 32 || nprocs == MAXPROC) continue;
        struct tap *tp = &taps[ntaps++];
        tp->obj = links[l].obj;
        tp->side = links[l].side;
        tp->cv = cmb_condition_create();
        cmb_condition_initialize(tp->cv, "tap");
        cmb_resourceguard_register(guard_of(tp->obj, tp->side), &tp->cv->guard);
        struct sproc *sp = &procs[nprocs];
        memset(sp, 0, sizeof *sp);
        snprintf(sp->name, sizeof sp->name, "tap%d", ntaps - 1);
        sp->is_tap = true;
        sp->blocked_op = -1;
        sp->p = cmb_process_create();
        cmb_process_initialize(sp->p, sp->name, tap_main, tp, INT64_MAX);
        tp->pid = nprocs++;
    }
}

int mode_sim(char *text, FILE *trace)
{
    tf = trace;
    cmb_logger_flags_off(CMB_LOGGER_INFO | CMB_LOGGER_WARNING);
    if (parse_case(text) != 0) {
        fprintf(trace, "F parse error\n");
        return CIMX_PARSE_ERROR;
    }
    cmb_event_queue_initialize(start_time);
    const int nuser = nprocs;
    nuserprocs = nprocs;
    for (int k = 0; k < nuser; k++) {
        struct sproc *sp = &procs[k];
        sp->p = cmb_process_create();
        cmb_process_initialize(sp->p, sp->name, proc_main, sp, sp->prio0);
    }
    create_objects();
    for (int k = 0; k < nobjs; k++) {
        if (objs[k].recording) {
            objs[k].recording = false;
            rec_switch(k, true);
            tr("X 0 0 %a -1 -1 rec_on %s n=%" PRIu64 " val=%a\n", cmb_time(), objs[k].name,
               cmb_timeseries_count(history_of(k)), current_value(k));
        }
    }
    /* taps start first (highest priority) so they wait before anything happens */
    for (int k = nuser; k < nprocs; k++) cmb_process_start(procs[k].p);
    for (int k = 0; k < nuser; k++) {
        struct sproc *sp = &procs[k];
        if (sp->start < 0.0) continue;
        if (sp->start <= 0.0) cmb_process_start(sp->p);
        else (void)cmb_event_schedule(start_cmd_action, sp, NULL, start_time + sp->start, sp->start_prio);
    }
    for (int k = 0; k < ncmds; k++) {
        (void)cmb_event_schedule(cmd_action, &cmds[k], NULL, start_time + cmds[k].t, cmds[k].prio);
    }
    snapshot();
    bool ceiling = false;
    for (;;) {
        evno++;
        if (evno > EVENT_CEILING) { ceiling = true; break; }
        if (!cmb_event_execute_next()) break;
        for (int k = 0; k < nobjs; k++) {
            /* what an ending process held has been handed back during this event: conditions observing it
             * must have been told (the predicates of their waiters, evaluated by the harness, now) */
            if (dropped_obj[k]) { dropped_obj[k] = false; log_ground_for_object(k, "after-drop"); }
        }
        snapshot();
    }
    if (ceiling) {
        tr("V CEILING %" PRIu64 " %a event ceiling reached\n", evno, cmb_time());
    }
    else {
        tr("Q %" PRIu64 " %a\n", evno, cmb_time());
        for (int p = 0; p < nuser; p++) {
            tr("W %d status=%d blocked=%d\n", p, (int)cmb_process_status(procs[p].p), procs[p].blocked_op);
        }
        /* recorded histories */
        for (int k = 0; k < nobjs; k++) {
            if (objs[k].kind == O_COND) continue;
            struct cmb_timeseries *ts = history_of(k);
            const uint64_t n = cmb_timeseries_count(ts);
            if (n == 0u) continue;
            tr("H %s %" PRIu64, objs[k].name, n);
            for (uint64_t j = 0; j < n; j++) tr(" %a %a", ts->ds.xa[j], ts->ta[j]);
            tr("\n");
            if (n >= 2u) {
                struct cmb_wtdsummary *ws = cmb_wtdsummary_create();
                const uint64_t m = cmb_timeseries_summarize(ts, ws);
                if (m >= 1u && ts->ta[n - 1u] > ts->ta[0]) tr("M %s %a\n", objs[k].name, cmb_wtdsummary_mean(ws));
                cmb_wtdsummary_destroy(ws);
            }
        }
    }
    /* teardown through the public API: stop what is still running, drain, destroy */
    tr("D\n");
    fflush(tf);
    in_teardown = true;
    for (int p = 0; p < nprocs; p++) {
        if (cmb_process_status(procs[p].p) == CMB_PROCESS_RUNNING) cmb_process_stop(procs[p].p, NULL);
    }
    if (!ceiling) {
        uint64_t guard = 0;
        while (guard++ < EVENT_CEILING && cmb_event_execute_next()) { }
    }
    cmb_event_queue_clear();
    for (int p = 0; p < nprocs; p++) {
        cmb_process_terminate(procs[p].p);
        cmb_process_destroy(procs[p].p);
    }
    for (int k = 0; k < nobjs; k++) {
        switch (objs[k].kind) {
        case O_RES: cmb_resource_destroy(objs[k].ptr); break;
        case O_POOL: cmb_resourcepool_destroy(objs[k].ptr); break;
        case O_BUF: cmb_buffer_destroy(objs[k].ptr); break;
        case O_OQ: cmb_objectqueue_destroy(objs[k].ptr); break;
        case O_PQ: cmb_priorityqueue_destroy(objs[k].ptr); break;
        case O_COND: cmb_condition_destroy(objs[k].ptr); break;
        }
    }
    for (int t = 0; t < ntaps; t++) cmb_condition_destroy(taps[t].cv);
    cmb_event_queue_terminate();
    tr("N events=%" PRIu64 " ceiling=%d\n", evno, ceiling ? 1 : 0);
    return CIMX_OK;
}
