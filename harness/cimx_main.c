/*
 * cimx_main.c - the case executor's zygote.
 *
 *   cimx serve        read length-prefixed cases on stdin, run each in a
 *                     forked child, answer with a length-prefixed trace whose
 *                     last line is "E <kind> <code> <first stderr line>"
 *   cimx run <file>   run one case from a file the same way, print the trace
 *
 * Fork-per-case makes a run a pure function of the case (no thread-local cimba
 * state survives) and turns aborts / sanitizer reports / signals into
 * observations instead of the death of the test driver. Address space layout
 * randomisation is switched off so pointer-valued tie-breaks inside cimba
 * (waiting-list key = process address) are reproducible.
 */
#include <errno.h>
#include <fcntl.h>
#include <poll.h>
#include <signal.h>
#include <stdlib.h>
#include <string.h>
#include <sys/personality.h>
#include <sys/resource.h>
#include <sys/wait.h>
#include <time.h>
#include <unistd.h>

#include "cimx.h"

#define WATCHDOG_SECONDS 120
#define STDERR_KEEP 16384

static const struct { const char *name; cimx_mode_func *func; } modes[] = {
    { "hashheap", mode_hashheap },
    { "event", mode_event },
    { "mempool", mode_mempool },
    { "sim", mode_sim },
    { "coro", mode_coro },
    { "random", mode_random },
    { "stats", mode_stats },
    { "experiment", mode_experiment },
};

static int run_child(char *text, const int trace_fd)
{
    FILE *trace = fdopen(trace_fd, "w");
    if (trace == NULL) {
        _exit(12);
    }
    static char tbuf[1 << 16];
    setvbuf(trace, tbuf, _IOFBF, sizeof tbuf);

    char *cursor = text;
    char *line = cimx_next_line(&cursor);
    char *tok[4];
    if (line == NULL || cimx_split(line, tok, 4) < 2 || strcmp(tok[0], "mode") != 0) {
        fprintf(trace, "F bad first line\n");
        fflush(trace);
        return CIMX_PARSE_ERROR;
    }
    for (unsigned i = 0; i < sizeof modes / sizeof modes[0]; i++) {
        if (strcmp(tok[1], modes[i].name) == 0) {
            const int r = modes[i].func(cursor, trace);
            fflush(trace);
            return r;
        }
    }
    fprintf(trace, "F unknown mode %s\n", tok[1]);
    fflush(trace);
    return CIMX_PARSE_ERROR;
}

struct dynbuf { char *p; size_t n, cap; };

static void db_add(struct dynbuf *b, const char *s, const size_t n)
{
    if (b->n + n + 1 > b->cap) {
        while (b->n + n + 1 > b->cap) b->cap = b->cap ? b->cap * 2 : 65536;
        b->p = realloc(b->p, b->cap);
    }
    memcpy(b->p + b->n, s, n);
    b->n += n;
    b->p[b->n] = '\0';
}

#ifdef CIMX_COV
extern void __gcov_dump(void);
#endif

/* Run one case in a forked child; the whole answer is appended to out */
static void run_case(char *text, struct dynbuf *out)
{
    int tp[2], ep[2];
    if (pipe(tp) != 0 || pipe(ep) != 0) { perror("pipe"); exit(3); }
    fflush(NULL);
    const pid_t pid = fork();
    if (pid < 0) { perror("fork"); exit(3); }
    if (pid == 0) {
        close(tp[0]); close(ep[0]);
        const int devnull = open("/dev/null", O_WRONLY);
        dup2(devnull, 1);
        dup2(ep[1], 2);
        close(ep[1]);
        const int r = run_child(text, tp[1]);
        fflush(NULL);
#ifdef CIMX_COV
        __gcov_dump();
#endif
        _exit(r);
    }
    close(tp[1]); close(ep[1]);
    struct dynbuf err = {0};
    struct pollfd pf[2] = { { tp[0], POLLIN, 0 }, { ep[0], POLLIN, 0 } };
    int open_fds = 2;
    const time_t t0 = time(NULL);
    int timed_out = 0;
    char buf[65536];
    while (open_fds > 0) {
        const int pr = poll(pf, 2, 1000);
        if (pr < 0 && errno != EINTR) break;
        for (int i = 0; i < 2; i++) {
            if (pf[i].fd >= 0 && (pf[i].revents & (POLLIN | POLLHUP | POLLERR))) {
                const ssize_t n = read(pf[i].fd, buf, sizeof buf);
                if (n > 0) {
                    if (i == 0) db_add(out, buf, (size_t)n);
                    else if (err.n < STDERR_KEEP) db_add(&err, buf, (size_t)n);
                }
                else if (n == 0 || (n < 0 && errno != EINTR && errno != EAGAIN)) {
                    close(pf[i].fd);
                    pf[i].fd = -1;
                    open_fds--;
                }
            }
        }
        if (!timed_out && time(NULL) - t0 > WATCHDOG_SECONDS) {
            kill(pid, SIGKILL);
            timed_out = 1;
        }
    }
    int st = 0;
    while (waitpid(pid, &st, 0) < 0 && errno == EINTR) { }
    if (out->n > 0 && out->p[out->n - 1] != '\n') db_add(out, "\n", 1);

    /* stderr: every line is relayed as "! ..." (sanitizer reports, asserts) */
    if (err.n > 0) {
        char *s = err.p;
        while (*s) {
            char *nl = strchr(s, '\n');
            const size_t len = nl ? (size_t)(nl - s) : strlen(s);
            db_add(out, "! ", 2);
            db_add(out, s, len);
            db_add(out, "\n", 1);
            if (!nl) break;
            s = nl + 1;
        }
    }
    char e[128];
    if (timed_out) snprintf(e, sizeof e, "E timeout 0\n");
    else if (WIFSIGNALED(st)) snprintf(e, sizeof e, "E signal %d\n", WTERMSIG(st));
    else snprintf(e, sizeof e, "E exit %d\n", WEXITSTATUS(st));
    db_add(out, e, strlen(e));
    free(err.p);
}

static int read_exact(char *p, size_t n)
{
    while (n > 0) {
        const ssize_t r = read(0, p, n);
        if (r <= 0) { if (r < 0 && errno == EINTR) continue; return -1; }
        p += r; n -= (size_t)r;
    }
    return 0;
}

static void write_all(const char *p, size_t n)
{
    while (n > 0) {
        const ssize_t r = write(1, p, n);
        if (r <= 0) { if (r < 0 && errno == EINTR) continue; exit(4); }
        p += r; n -= (size_t)r;
    }
}

static int serve(void)
{
    for (;;) {
        /* header: decimal length, newline */
        char hdr[32]; size_t hn = 0;
        for (;;) {
            char c;
            const ssize_t r = read(0, &c, 1);
            if (r == 0) return 0;
            if (r < 0) { if (errno == EINTR) continue; return 0; }
            if (c == '\n') break;
            if (hn < sizeof hdr - 1) hdr[hn++] = c;
        }
        hdr[hn] = '\0';
        const size_t len = strtoul(hdr, NULL, 10);
        char *text = malloc(len + 1);
        if (read_exact(text, len) != 0) return 0;
        text[len] = '\0';
        struct dynbuf out = {0};
        run_case(text, &out);
        char oh[32];
        const int ohn = snprintf(oh, sizeof oh, "%zu\n", out.n);
        write_all(oh, (size_t)ohn);
        write_all(out.p, out.n);
        free(out.p);
        free(text);
    }
}

int main(int argc, char **argv)
{
    if (argc < 2) {
        fprintf(stderr, "usage: cimx serve | run <file>\n");
        return 2;
    }
    /* Deterministic addresses: switch ASLR off and re-exec once */
    if (getenv("CIMX_NOASLR_DONE") == NULL) {
        const int pers = personality(0xffffffff);
        if (pers != -1 && !(pers & ADDR_NO_RANDOMIZE)
            && personality(pers | ADDR_NO_RANDOMIZE) != -1) {
            setenv("CIMX_NOASLR_DONE", "1", 1);
            execv("/proc/self/exe", argv);
        }
    }
    signal(SIGPIPE, SIG_IGN);
    if (strcmp(argv[1], "serve") == 0) {
        return serve();
    }
    if (strcmp(argv[1], "run") == 0 && argc >= 3) {
        FILE *f = fopen(argv[2], "rb");
        if (!f) { perror(argv[2]); return 2; }
        struct dynbuf in = {0};
        char buf[65536]; size_t n;
        while ((n = fread(buf, 1, sizeof buf, f)) > 0) db_add(&in, buf, n);
        fclose(f);
        if (in.p == NULL) db_add(&in, "", 0);
        struct dynbuf out = {0};
        run_case(in.p, &out);
        write_all(out.p, out.n);
        return 0;
    }
    fprintf(stderr, "usage: cimx serve | run <file>\n");
    return 2;
}
