/*
 * m_mempool.c - C20: allocation/free histories on cmi_mempool against an
 * in-executor oracle.
 *
 * Pools are obtained the way the library obtains them: dynamically
 * (cmi_mempool_create + cmi_mempool_initialize) or as statically initialised
 * thread-local pools (CMI_MEMPOOL_STATIC_INIT; the harness declares a table of
 * its own geometries and also uses the three tag pools of cmb_process.c),
 * in the main thread or in a fresh pthread that ends with cmi_mempool_cleanup
 * the way the experiment workers do.
 *
 * Oracle (per pool): every returned pointer is non-NULL and 8-byte aligned;
 * [p, p + obj_sz) is disjoint from every object currently allocated from that
 * pool (hash of live objects keyed by address / obj_sz); a pointer is never
 * handed out while still allocated; each object is filled over its full obj_sz
 * bytes with a pattern derived from its id when it is obtained and the pattern
 * is verified when it is returned, at "check" ops and at the end. ASan watches
 * the pool's own bookkeeping and the bounds of the chunks.
 *
 * Only cmi_mempool_* calls and their results are judged. The struct members
 * chunk_list_cnt / incr_num are read for CLASSIFICATION only (how many chunk
 * boundaries the population crossed).
 *
 * The same mp_run() serves the Hypothesis path (text case) and the libFuzzer
 * front end (fuzz_mempool.c: bytes decoded into the same structs).
 */
#include <inttypes.h>
#include <pthread.h>
#include <stdlib.h>
#include <string.h>

#include "cmb_process.h"
#include "cmi_config.h"
#include "cmi_mempool.h"
#include "cmi_process.h"

#include "cimx.h"
#include "m_mempool.h"

/* ------------------------------------------------- static thread-local pools -- */

#define SP(name, sz, num) \
    static CMB_THREAD_LOCAL struct cmi_mempool name = CMI_MEMPOOL_STATIC_INIT(sz, num)

SP(sp_8_1, 8u, 1u);
SP(sp_8_600, 8u, 600u);
SP(sp_16_256, 16u, 256u);
SP(sp_24_100, 24u, 100u);
SP(sp_32_128, 32u, 128u);
SP(sp_72_57, 72u, 57u);
SP(sp_1368_3, 1368u, 3u);
SP(sp_2048_1, 2048u, 1u);
SP(sp_2056_1, 2056u, 1u);
SP(sp_4088_1, 4088u, 1u);
SP(sp_4096_1, 4096u, 1u);
SP(sp_4096_2, 4096u, 2u);
SP(sp_4104_1, 4104u, 1u);

struct sp_desc { struct cmi_mempool *mp; size_t obj_sz; uint64_t obj_num; const char *name; };

#define NSTATIC 16u

/* Addresses of thread-locals are not constants: resolve at run time, in the running thread */
static struct sp_desc static_pool(const unsigned k)
{
    switch (k % NSTATIC) {
    case 0: return (struct sp_desc){ &sp_8_1, 8u, 1u, "8x1" };
    case 1: return (struct sp_desc){ &sp_8_600, 8u, 600u, "8x600" };
    case 2: return (struct sp_desc){ &sp_16_256, 16u, 256u, "16x256" };
    case 3: return (struct sp_desc){ &sp_24_100, 24u, 100u, "24x100" };
    case 4: return (struct sp_desc){ &sp_32_128, 32u, 128u, "32x128" };
    case 5: return (struct sp_desc){ &sp_72_57, 72u, 57u, "72x57" };
    case 6: return (struct sp_desc){ &sp_1368_3, 1368u, 3u, "1368x3" };
    case 7: return (struct sp_desc){ &sp_2048_1, 2048u, 1u, "2048x1" };
    case 8: return (struct sp_desc){ &sp_2056_1, 2056u, 1u, "2056x1" };
    case 9: return (struct sp_desc){ &sp_4088_1, 4088u, 1u, "4088x1" };
    case 10: return (struct sp_desc){ &sp_4096_1, 4096u, 1u, "4096x1" };
    case 11: return (struct sp_desc){ &sp_4096_2, 4096u, 2u, "4096x2" };
    case 12: return (struct sp_desc){ &sp_4104_1, 4104u, 1u, "4104x1" };
    /* the library's own tag pools (src/cmb_process.c:34-41) */
    case 13: return (struct sp_desc){ &cmi_process_awaitabletags,
                                      sizeof(struct cmi_process_awaitable), 128u, "awaitabletags" };
    case 14: return (struct sp_desc){ &cmi_process_holdabletags,
                                      sizeof(struct cmi_process_holdable), 256u, "holdabletags" };
    default: return (struct sp_desc){ &cmi_process_waitertags,
                                      sizeof(struct cmi_process_waiter), 256u, "waitertags" };
    }
}

unsigned mp_static_count(void) { return NSTATIC; }

/* ---------------------------------------------------------------- model -- */

struct lobj {
    char *p;
    uint64_t id;
    uint64_t bucket;        /* address / obj_sz */
    int live_idx;
    struct lobj *next;      /* hash chain */
};

#define HT_BITS 16u
#define HT_SIZE (1u << HT_BITS)

struct pstate {
    struct cmi_mempool *mp;
    int is_static;
    size_t obj_sz;
    struct lobj **live;
    int nlive, caplive;
    struct lobj **ht;
    uint64_t chunks_seen;   /* classification */
    uint64_t incr_num;      /* classification */
};

static inline unsigned ht_slot(const uint64_t bucket)
{
    return (unsigned)((bucket * UINT64_C(11400714819323198485)) >> (64u - HT_BITS));
}

static inline uint64_t pat_word(const uint64_t id, const uint64_t j)
{
    uint64_t z = id * UINT64_C(0x9E3779B97F4A7C15) + j * UINT64_C(0xBF58476D1CE4E5B9) + 1u;
    z ^= z >> 29;
    z *= UINT64_C(0x94D049BB133111EB);
    z ^= z >> 32;
    return z;
}

static void fill(char *p, const uint64_t id, const size_t sz)
{
    uint64_t *w = (uint64_t *)(void *)p;
    for (size_t j = 0; j < sz / 8u; j++) w[j] = pat_word(id, j);
}

/* returns -1 if intact, else the index of the first differing 8-byte word */
static long verify(const char *p, const uint64_t id, const size_t sz)
{
    const uint64_t *w = (const uint64_t *)(const void *)p;
    for (size_t j = 0; j < sz / 8u; j++) if (w[j] != pat_word(id, j)) return (long)j;
    return -1;
}

static void model_add(struct pstate *ps, struct lobj *o)
{
    if (ps->nlive == ps->caplive) {
        ps->caplive = ps->caplive ? ps->caplive * 2 : 256;
        ps->live = realloc(ps->live, (size_t)ps->caplive * sizeof *ps->live);
    }
    o->live_idx = ps->nlive;
    ps->live[ps->nlive++] = o;
    const unsigned s = ht_slot(o->bucket);
    o->next = ps->ht[s];
    ps->ht[s] = o;
}

static void model_del(struct pstate *ps, struct lobj *o)
{
    struct lobj **pp = &ps->ht[ht_slot(o->bucket)];
    while (*pp != o) pp = &(*pp)->next;
    *pp = o->next;
    ps->nlive--;
    if (o->live_idx != ps->nlive) {
        ps->live[o->live_idx] = ps->live[ps->nlive];
        ps->live[o->live_idx]->live_idx = o->live_idx;
    }
    free(o);
}

static void model_clear(struct pstate *ps)
{
    for (int a = 0; a < ps->nlive; a++) free(ps->live[a]);
    ps->nlive = 0;
    memset(ps->ht, 0, HT_SIZE * sizeof *ps->ht);
}

/* ------------------------------------------------------------- printing -- */

static const char *const op_names[] = { "a", "f", "l", "r", "c" };

void mp_print_case(const struct mp_case *c, FILE *f)
{
    fprintf(f, "mode mempool\nthread %d\n", c->in_thread);
    for (int k = 0; k < c->npools; k++) {
        const struct mp_pooldef *d = &c->pools[k];
        if (d->is_static) fprintf(f, "pool static %u\n", d->static_idx);
        else fprintf(f, "pool dyn %zu %" PRIu64 "\n", d->obj_sz, d->obj_num);
    }
    for (int n = 0; n < c->nops; n++) {
        const struct mp_op *o = &c->ops[n];
        switch (o->op) {
        case MP_ALLOC: fprintf(f, "a %u %u\n", o->pool, o->n); break;
        case MP_FREE: fprintf(f, "f %u %u %u\n", o->pool, o->ref, o->n); break;
        case MP_FREE_LAST: fprintf(f, "l %u %u\n", o->pool, o->n); break;
        case MP_REINIT: fprintf(f, "r %u %zu %" PRIu64 "\n", o->pool, o->obj_sz, o->obj_num); break;
        case MP_CHECK: fprintf(f, "c %u\n", o->pool); break;
        }
    }
}

void mp_free_case(struct mp_case *c)
{
    free(c->ops);
    c->ops = NULL;
    c->nops = 0;
}

/* -------------------------------------------------------------- running -- */

#define FAIL(...) do { fprintf(trace, "F op#%d %s pool%u(%s %zu): ", n, op_names[o->op], o->pool, \
                               ps->is_static ? "static" : "dyn", ps->obj_sz); \
                       fprintf(trace, __VA_ARGS__); fprintf(trace, "\n"); \
                       return CIMX_ORACLE_FAIL; } while (0)

static int check_all(struct pstate *ps, FILE *trace, const int n, const struct mp_op *o)
{
    for (int a = 0; a < ps->nlive; a++) {
        const struct lobj *lo = ps->live[a];
        const long bad = verify(lo->p, lo->id, ps->obj_sz);
        if (bad >= 0) {
            FAIL("contents of live object id %" PRIu64 " changed at byte offset %ld while allocated",
                 lo->id, bad * 8);
        }
    }
    return 0;
}

struct run_ctx { const struct mp_case *c; FILE *trace; int result; };

static int run_ops(const struct mp_case *c, FILE *trace)
{
    struct pstate pst[MP_MAX_POOLS];
    memset(pst, 0, sizeof pst);
    unsigned used_static = 0;
    for (int k = 0; k < c->npools; k++) {
        struct pstate *ps = &pst[k];
        const struct mp_pooldef *d = &c->pools[k];
        ps->ht = calloc(HT_SIZE, sizeof *ps->ht);
        ps->is_static = d->is_static;
        if (d->is_static) {
            const unsigned idx = d->static_idx % NSTATIC;
            if (used_static & (1u << idx)) {
                fprintf(trace, "F static pool %u named twice\n", idx);
                return CIMX_PARSE_ERROR;
            }
            used_static |= 1u << idx;
            const struct sp_desc sd = static_pool(idx);
            ps->mp = sd.mp;
            ps->obj_sz = sd.obj_sz;
        }
        else {
            ps->mp = cmi_mempool_create();
            cmi_mempool_initialize(ps->mp, d->obj_sz, d->obj_num);
            ps->obj_sz = d->obj_sz;
        }
    }

    uint64_t next_id = 1;
    uint64_t total_live = 0, total_bytes = 0;
    unsigned skipped = 0, nalloc = 0, nfree = 0, reinit = 0, recycled = 0;
    unsigned long opcount = 0;
    uint64_t maxchunks = 0, maxlive = 0;
    unsigned pools_grown = 0;

    for (int n = 0; n < c->nops; n++) {
        const struct mp_op *o = &c->ops[n];
        if ((int)o->pool >= c->npools) { skipped++; continue; }
        struct pstate *ps = &pst[o->pool];
        switch (o->op) {
        case MP_ALLOC:
            for (unsigned r = 0; r < o->n; r++) {
                opcount++;
                if (total_live >= MP_MAX_LIVE || total_bytes >= MP_MAX_BYTES) { skipped++; break; }
                const int had_free = (ps->mp->next_obj != NULL);    /* classification only */
                char *p = cmi_mempool_alloc(ps->mp);
                if (p == NULL) FAIL("alloc returned NULL");
                if (((uintptr_t)p % 8u) != 0u) FAIL("alloc returned misaligned pointer (address mod 8 = %u)",
                                                    (unsigned)((uintptr_t)p % 8u));
                const uint64_t b = (uint64_t)(uintptr_t)p / ps->obj_sz;
                for (uint64_t bb = (b > 0 ? b - 1 : b); bb <= b + 1; bb++) {
                    for (const struct lobj *q = ps->ht[ht_slot(bb)]; q != NULL; q = q->next) {
                        if (q->p == p) {
                            FAIL("alloc handed out a pointer that is still allocated (object id %" PRIu64
                                 ", live %d)", q->id, ps->nlive);
                        }
                        if ((uintptr_t)p < (uintptr_t)q->p + ps->obj_sz && (uintptr_t)q->p < (uintptr_t)p + ps->obj_sz) {
                            FAIL("alloc returned an object overlapping live object id %" PRIu64
                                 " (distance %ld bytes, object size %zu)", q->id,
                                 (long)((intptr_t)p - (intptr_t)q->p), ps->obj_sz);
                        }
                    }
                }
                struct lobj *lo = malloc(sizeof *lo);
                lo->p = p;
                lo->id = next_id++;
                lo->bucket = b;
                fill(p, lo->id, ps->obj_sz);
                model_add(ps, lo);
                nalloc++;
                total_live++;
                if (had_free && nfree > 0) recycled++;
                if (ps->mp->chunk_list_cnt != ps->chunks_seen) {
                    if (ps->mp->chunk_list_cnt > ps->chunks_seen) {
                        total_bytes += (ps->mp->chunk_list_cnt - ps->chunks_seen) * ps->mp->incr_sz;
                    }
                    ps->chunks_seen = ps->mp->chunk_list_cnt;
                    ps->incr_num = ps->mp->incr_num;
                    if (ps->chunks_seen == 2) pools_grown++;
                    if (ps->chunks_seen > maxchunks) maxchunks = ps->chunks_seen;
                }
                if (total_live > maxlive) maxlive = total_live;
            }
            break;
        case MP_FREE:
        case MP_FREE_LAST:
            for (unsigned r = 0; r < o->n; r++) {
                opcount++;
                if (ps->nlive == 0) { skipped++; break; }
                struct lobj *lo = (o->op == MP_FREE)
                                  ? ps->live[o->ref % (unsigned)ps->nlive]
                                  : ps->live[ps->nlive - 1];
                const long bad = verify(lo->p, lo->id, ps->obj_sz);
                if (bad >= 0) {
                    FAIL("contents of live object id %" PRIu64 " changed at byte offset %ld while allocated",
                         lo->id, bad * 8);
                }
                cmi_mempool_free(ps->mp, lo->p);
                model_del(ps, lo);
                nfree++;
                total_live--;
            }
            break;
        case MP_REINIT: {
            opcount++;
            if (ps->is_static) { skipped++; break; }
            const int r = check_all(ps, trace, n, o);
            if (r != 0) return r;
            /* all objects of the pool become invalid (documented) */
            total_live -= (uint64_t)ps->nlive;
            model_clear(ps);
            cmi_mempool_terminate(ps->mp);
            cmi_mempool_initialize(ps->mp, o->obj_sz, o->obj_num);
            ps->obj_sz = o->obj_sz;
            ps->chunks_seen = 0;
            reinit++;
            break;
        }
        case MP_CHECK: {
            opcount++;
            const int r = check_all(ps, trace, n, o);
            if (r != 0) return r;
            break;
        }
        }
    }

    /* end of history: every object still allocated kept its contents */
    static const struct mp_op end_op = { MP_CHECK, 0, 0, 0, 0, 0 };
    for (int k = 0; k < c->npools; k++) {
        struct mp_op eo = end_op;
        eo.pool = (unsigned)k;
        const int n = c->nops;
        const int r = check_all(&pst[k], trace, n, &eo);
        if (r != 0) return r;
    }

    unsigned nstatic = 0;
    for (int k = 0; k < c->npools; k++) nstatic += (unsigned)pst[k].is_static;
    fprintf(trace, "N ops=%lu skipped=%u alloc=%u free=%u reinit=%u recycled=%u maxlive=%" PRIu64
            " maxchunks=%" PRIu64 " pools=%d static=%u grown=%u thread=%d\n",
            opcount, skipped, nalloc, nfree, reinit, recycled, maxlive, maxchunks,
            c->npools, nstatic, pools_grown, c->in_thread);

    for (int k = 0; k < c->npools; k++) {
        struct pstate *ps = &pst[k];
        model_clear(ps);
        free(ps->live);
        free(ps->ht);
        if (!ps->is_static) cmi_mempool_destroy(ps->mp);
    }
    return CIMX_OK;
}

static void *thread_main(void *arg)
{
    struct run_ctx *rc = arg;
    /* exactly what the experiment workers do (src/cimba.c:62,87) */
    pthread_cleanup_push(cmi_mempool_cleanup, NULL);
    rc->result = run_ops(rc->c, rc->trace);
    pthread_cleanup_pop(1);
    return NULL;
}

int mp_run(const struct mp_case *c, FILE *trace)
{
    if (!c->in_thread) return run_ops(c, trace);
    struct run_ctx rc = { c, trace, CIMX_OK };
    pthread_t th;
    if (pthread_create(&th, NULL, thread_main, &rc) != 0) {
        fprintf(trace, "F pthread_create failed\n");
        return CIMX_PARSE_ERROR;
    }
    pthread_join(th, NULL);
    return rc.result;
}

/* -------------------------------------------------------------- parsing -- */

static int valid_geometry(const size_t sz, const uint64_t num)
{
    return sz >= 8u && sz <= MP_MAX_OBJ_SZ && (sz % 8u) == 0u && num >= 1u && num <= 100000u;
}

int mp_parse(char *text, struct mp_case *c)
{
    char *cursor = text;
    char *line;
    char *tok[8];
    int cap = 0;
    memset(c, 0, sizeof *c);
    while ((line = cimx_next_line(&cursor)) != NULL) {
        const int nt = cimx_split(line, tok, 8);
        if (nt == 0) continue;
        if (strcmp(tok[0], "thread") == 0 && nt >= 2) {
            c->in_thread = (int)cimx_i64(tok[1]) != 0;
            continue;
        }
        if (strcmp(tok[0], "pool") == 0 && nt >= 3) {
            if (c->npools == MP_MAX_POOLS) return -1;
            struct mp_pooldef *d = &c->pools[c->npools++];
            if (strcmp(tok[1], "static") == 0) {
                d->is_static = 1;
                d->static_idx = (unsigned)cimx_u64(tok[2]);
                if (d->static_idx >= NSTATIC) return -1;
            }
            else if (strcmp(tok[1], "dyn") == 0 && nt >= 4) {
                d->is_static = 0;
                d->obj_sz = (size_t)cimx_u64(tok[2]);
                d->obj_num = cimx_u64(tok[3]);
                if (!valid_geometry(d->obj_sz, d->obj_num)) return -1;
            }
            else return -1;
            continue;
        }
        int op = -1;
        for (int j = 0; j < (int)(sizeof op_names / sizeof op_names[0]); j++) {
            if (strcmp(tok[0], op_names[j]) == 0) op = j;
        }
        if (op < 0 || nt < 2) return -1;
        if (c->nops == cap) {
            cap = cap ? cap * 2 : 64;
            c->ops = realloc(c->ops, (size_t)cap * sizeof *c->ops);
        }
        struct mp_op *o = &c->ops[c->nops++];
        memset(o, 0, sizeof *o);
        o->op = (enum mp_opcode)op;
        o->pool = (unsigned)cimx_u64(tok[1]);
        switch (o->op) {
        case MP_ALLOC: case MP_FREE_LAST:
            if (nt < 3) return -1;
            o->n = (unsigned)cimx_u64(tok[2]);
            break;
        case MP_FREE:
            if (nt < 4) return -1;
            o->ref = (unsigned)cimx_u64(tok[2]);
            o->n = (unsigned)cimx_u64(tok[3]);
            break;
        case MP_REINIT:
            if (nt < 4) return -1;
            o->obj_sz = (size_t)cimx_u64(tok[2]);
            o->obj_num = cimx_u64(tok[3]);
            if (!valid_geometry(o->obj_sz, o->obj_num)) return -1;
            break;
        case MP_CHECK:
            break;
        }
    }
    if (c->npools == 0) return -1;
    return 0;
}

int mode_mempool(char *text, FILE *trace)
{
    struct mp_case c;
    if (mp_parse(text, &c) != 0) {
        fprintf(trace, "F parse error\n");
        return CIMX_PARSE_ERROR;
    }
    const int r = mp_run(&c, trace);
    mp_free_case(&c);
    return r;
}
