/* placeholder, replaced when the mode is implemented */
#include "cimx.h"
int mode_mempool(char *text, FILE *trace) { (void)text; fprintf(trace, "F mode mempool not implemented\n"); return CIMX_PARSE_ERROR; }
