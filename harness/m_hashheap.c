/*
 * m_hashheap.c - C02: operation histories on cmi_hashheap against a reference
 * model (a plain array of live entries, linear scans, the specified orderings
 * written independently of the library's comparators).
 *
 * The same hh_run() serves the Hypothesis path (text case) and the libFuzzer
 * front end (bytes decoded into the same op structs).
 */
#include <inttypes.h>
#include <math.h>
#include <stdlib.h>
#include <string.h>

#include "cmb_priorityqueue.h"
#include "cmb_resource.h"
#include "cmb_resourcepool.h"
#include "cmi_hashheap.h"

#include "cimx.h"
#include "m_hashheap.h"

/* ---------------------------------------------------------------- model -- */

struct ment {
    uint64_t key;
    double d;
    int64_t i;
    void *pl[4];
};

struct kslot {          /* every key ever used in this case */
    uint64_t key;
    int live_idx;       /* index into live[] or -1 */
    int removed_once;   /* has been removed at least once (for "reinsert") */
};

#define PHI UINT64_C(11400714819323198485)

static struct ment *live;
static int nlive, caplive;
static struct kslot *keys;
static int nkeys, capkeys;

static void model_reset(void)
{
    nlive = 0;
    for (int k = 0; k < nkeys; k++) keys[k].live_idx = -1;
}

static int key_slot(const uint64_t key)
{
    for (int k = 0; k < nkeys; k++) if (keys[k].key == key) return k;
    if (nkeys == capkeys) {
        capkeys = capkeys ? capkeys * 2 : 256;
        keys = realloc(keys, (size_t)capkeys * sizeof *keys);
    }
    keys[nkeys].key = key;
    keys[nkeys].live_idx = -1;
    keys[nkeys].removed_once = 0;
    return nkeys++;
}

static void model_add(const struct ment *e)
{
    if (nlive == caplive) {
        caplive = caplive ? caplive * 2 : 256;
        live = realloc(live, (size_t)caplive * sizeof *live);
    }
    live[nlive] = *e;
    keys[key_slot(e->key)].live_idx = nlive;
    nlive++;
}

static void model_del(const int idx)
{
    const int ks = key_slot(live[idx].key);
    keys[ks].live_idx = -1;
    keys[ks].removed_once = 1;
    nlive--;
    if (idx != nlive) {
        live[idx] = live[nlive];
        keys[key_slot(live[idx].key)].live_idx = idx;
    }
}

/* The specified orderings: does a come strictly before b? */
static bool precedes(const enum hh_kind kind, const struct ment *a, const struct ment *b)
{
    switch (kind) {
    case HH_DEFAULT:    /* ascending dsortkey only (not a total order) */
        return a->d < b->d;
    case HH_GUARD:      /* priority high first, then earlier entry time, then order of arrival
                         * (payload word 3, which this harness fills with the enqueue sequence number) */
        if (a->i != b->i) return a->i > b->i;
        if (a->d != b->d) return a->d < b->d;
        return (uintptr_t)a->pl[3] < (uintptr_t)b->pl[3];
    case HH_HOLDERS:    /* priority low first, then last in first (arrival number in payload word 3) */
        if (a->i != b->i) return a->i < b->i;
        return (uintptr_t)a->pl[3] > (uintptr_t)b->pl[3];
    case HH_PQ:         /* priority high first, then lower key (FIFO) */
        if (a->i != b->i) return a->i > b->i;
        return a->key < b->key;
    }
    return false;
}

static bool pl_equal(void *const *a, void *const *b)
{
    return a[0] == b[0] && a[1] == b[1] && a[2] == b[2] && a[3] == b[3];
}

static bool pat_match(const struct ment *e, void *const *pat)
{
    for (int j = 0; j < 4; j++) {
        if (pat[j] != CMI_ANY_ITEM && pat[j] != e->pl[j]) return false;
    }
    return true;
}

/* ------------------------------------------------------------- key table -- */

/*
 * Caller-supplied keys: ckey(g, n) is the n-th key >= 2^40 whose Fibonacci hash
 * shares its top 12 bits with auto key g+1, so these keys collide with each
 * other and with an automatically issued key in the hash map at every
 * capacity exponent up to 11. They are disjoint from the auto key range.
 */
uint64_t hh_ckey(unsigned g, unsigned n)
{
    static uint64_t cache[HH_KEY_GROUPS][HH_KEYS_PER_GROUP];
    g %= HH_KEY_GROUPS;
    n %= HH_KEYS_PER_GROUP;
    if (cache[g][n] != 0) return cache[g][n];
    const uint64_t want = ((uint64_t)(g + 1u) * PHI) >> 52;
    unsigned found = 0;
    for (uint64_t k = UINT64_C(1) << 40;; k++) {
        if (((k * PHI) >> 52) == want) {
            if (found < HH_KEYS_PER_GROUP) cache[g][found] = k;
            if (found == n) return k;
            found++;
        }
    }
}

/* -------------------------------------------------------------- running -- */

static const char *const kind_names[] = { "default", "guard", "holders", "pq" };
static const char *const op_names[] = { "enq", "deq", "peek", "rem", "reprio", "pfind",
                                        "pcount", "pcancel", "clear", "reset", "query" };

static void print_pl(FILE *f, void *const *pl)
{
    for (int j = 0; j < 4; j++) {
        if (pl[j] == CMI_ANY_ITEM) fprintf(f, " *");
        else fprintf(f, " %" PRIu64, (uint64_t)(uintptr_t)pl[j]);
    }
}

void hh_print_case(const struct hh_case *c, FILE *f)
{
    fprintf(f, "mode hashheap\nkind %s %u\n", kind_names[c->kind], c->exp);
    for (int n = 0; n < c->nops; n++) {
        const struct hh_op *o = &c->ops[n];
        fprintf(f, "%s", op_names[o->op]);
        switch (o->op) {
        case HH_ENQ:
            if (o->key_is_auto) fprintf(f, " auto");
            else fprintf(f, " c%u.%u", o->kg, o->kn);
            fprintf(f, " %a %" PRIi64, o->d, o->i);
            for (int j = 0; j < 3; j++) fprintf(f, " %" PRIu64, (uint64_t)(uintptr_t)o->pl[j]);
            break;
        case HH_REM: case HH_QUERY:
            fprintf(f, " @%u", o->ref);
            break;
        case HH_REPRIO:
            fprintf(f, " @%u %a %" PRIi64, o->ref, o->d, o->i);
            break;
        case HH_PFIND: case HH_PCOUNT: case HH_PCANCEL:
            print_pl(f, o->pl);
            break;
        default:
            break;
        }
        fprintf(f, "\n");
    }
}

#define FAIL(...) do { fprintf(trace, "F op#%d %s: ", n, op_names[o->op]); \
                       fprintf(trace, __VA_ARGS__); fprintf(trace, "\n"); \
                       return CIMX_ORACLE_FAIL; } while (0)

static int cross_check(struct cmi_hashheap *hp, const enum hh_kind kind, FILE *trace,
                       const int n, const struct hh_op *o)
{
    if (cmi_hashheap_count(hp) != (uint64_t)nlive) {
        FAIL("count %" PRIu64 " != model %d", cmi_hashheap_count(hp), nlive);
    }
    if (cmi_hashheap_is_empty(hp) != (nlive == 0)) FAIL("is_empty disagrees");
    for (int k = 0; k < nkeys; k++) {
        const bool is = cmi_hashheap_is_enqueued(hp, keys[k].key);
        if (is != (keys[k].live_idx >= 0)) {
            FAIL("is_enqueued(%" PRIu64 ")=%d model %d", keys[k].key, is, keys[k].live_idx >= 0);
        }
        if (is) {
            const struct ment *e = &live[keys[k].live_idx];
            void **it = cmi_hashheap_item(hp, keys[k].key);
            if (!pl_equal(it, e->pl)) FAIL("payload of key %" PRIu64 " changed", keys[k].key);
            const double d = cmi_hashheap_dkey(hp, keys[k].key);
            const int64_t i = cmi_hashheap_ikey(hp, keys[k].key);
            if (!(d == e->d) || i != e->i) {
                FAIL("sort keys of key %" PRIu64 ": got %a/%" PRIi64 " model %a/%" PRIi64,
                     keys[k].key, d, i, e->d, e->i);
            }
        }
    }
    /* peek agrees with the model minimum */
    void **top = cmi_hashheap_peek_item(hp);
    if (nlive == 0) {
        if (top != NULL) FAIL("peek on empty heap returned an item");
    }
    else {
        if (top == NULL) FAIL("peek returned NULL, model has %d", nlive);
        int found = -1;
        for (int a = 0; a < nlive; a++) if (pl_equal(top, live[a].pl)) { found = a; break; }
        if (found < 0) FAIL("peek returned a payload that is not live");
        if (!(cmi_hashheap_peek_dkey(hp) == live[found].d)
            || cmi_hashheap_peek_ikey(hp) != live[found].i) {
            FAIL("peek sort keys do not belong to the peeked item");
        }
        for (int a = 0; a < nlive; a++) {
            if (a != found && precedes(kind, &live[a], &live[found])) {
                FAIL("peek returned key %" PRIu64 " (d=%a i=%" PRIi64 ") but key %" PRIu64
                     " (d=%a i=%" PRIi64 ") precedes it", live[found].key, live[found].d,
                     live[found].i, live[a].key, live[a].d, live[a].i);
            }
        }
    }
    return 0;
}

int hh_run(const struct hh_case *c, FILE *trace)
{
    struct cmb_resource *res = NULL;
    struct cmb_resourcepool *pool = NULL;
    struct cmb_priorityqueue *pq = NULL;
    struct cmi_hashheap *own = NULL;
    struct cmi_hashheap *hp = NULL;

    /* Obtain the hashheap the way the library does, to get its real comparator */
    switch (c->kind) {
    case HH_DEFAULT:
        own = cmi_hashheap_create();
        cmi_hashheap_initialize(own, (uint16_t)c->exp, NULL);
        hp = own;
        break;
    case HH_GUARD:
        res = cmb_resource_create();
        cmb_resource_initialize(res, "R");
        hp = &(res->guard.priority_queue);
        break;
    case HH_HOLDERS:
        pool = cmb_resourcepool_create();
        cmb_resourcepool_initialize(pool, "P", 4u);
        hp = &(pool->holders);
        break;
    case HH_PQ:
        pq = cmb_priorityqueue_create();
        cmb_priorityqueue_initialize(pq, "Q", 4u);
        hp = &(pq->queue);
        break;
    }

    nkeys = 0;
    model_reset();
    uint64_t seq = 0;           /* unique id placed in payload word 3 */
    unsigned growth = 0, reinsert = 0, collide = 0, up = 0, down = 0, skipped = 0;
    unsigned multi_pat = 0, tombstone_reuse = 0;
    int maxlive = 0;
    uint64_t last_size = hp->heap_size;

    for (int n = 0; n < c->nops; n++) {
        const struct hh_op *o = &c->ops[n];
        switch (o->op) {
        case HH_ENQ: {
            uint64_t want = 0;
            if (!o->key_is_auto) {
                want = hh_ckey(o->kg, o->kn);
                const int ks = key_slot(want);
                if (keys[ks].live_idx >= 0) { skipped++; continue; } /* keys are unique */
                if (keys[ks].removed_once) reinsert++;
            }
            struct ment e = { 0, o->d, o->i, { o->pl[0], o->pl[1], o->pl[2],
                                                 (void *)(uintptr_t)(++seq) } };
            const uint64_t got = cmi_hashheap_enqueue(hp, e.pl[0], e.pl[1], e.pl[2], e.pl[3],
                                                      want, o->d, o->i);
            if (got == 0) FAIL("enqueue returned key 0");
            if (want != 0 && got != want) FAIL("enqueue returned %" PRIu64 " for caller key %" PRIu64, got, want);
            const int ks = key_slot(got);
            if (keys[ks].live_idx >= 0) FAIL("enqueue issued key %" PRIu64 " which is still live", got);
            e.key = got;
            model_add(&e);
            /* classification only: home-slot collisions among live keys */
            const unsigned sh = 64u - (hp->heap_exp_cur + 1u);
            for (int a = 0; a < nlive - 1; a++) {
                if (((live[a].key * PHI) >> sh) == ((got * PHI) >> sh)) { collide++; break; }
            }
            break;
        }
        case HH_DEQ: {
            void **it = cmi_hashheap_dequeue(hp);
            if (nlive == 0) {
                if (it != NULL) FAIL("dequeue on empty heap returned an item");
                break;
            }
            if (it == NULL) FAIL("dequeue returned NULL, model has %d", nlive);
            int found = -1;
            for (int a = 0; a < nlive; a++) if (pl_equal(it, live[a].pl)) { found = a; break; }
            if (found < 0) FAIL("dequeue returned a payload that is not live");
            for (int a = 0; a < nlive; a++) {
                if (a != found && precedes(c->kind, &live[a], &live[found])) {
                    FAIL("dequeue returned key %" PRIu64 " (d=%a i=%" PRIi64 ") but key %" PRIu64
                         " (d=%a i=%" PRIi64 ") precedes it", live[found].key, live[found].d,
                         live[found].i, live[a].key, live[a].d, live[a].i);
                }
            }
            model_del(found);
            break;
        }
        case HH_PEEK:
            break;                      /* cross_check peeks after every op */
        case HH_REM: {
            if (nkeys == 0) { skipped++; continue; }
            const int ks = (int)(o->ref % (unsigned)nkeys);
            const bool r = cmi_hashheap_remove(hp, keys[ks].key);
            if (r != (keys[ks].live_idx >= 0)) FAIL("remove(%" PRIu64 ") returned %d", keys[ks].key, r);
            if (r) model_del(keys[ks].live_idx);
            break;
        }
        case HH_QUERY:
            break;
        case HH_REPRIO: {
            if (nkeys == 0) { skipped++; continue; }
            const int ks = (int)(o->ref % (unsigned)nkeys);
            if (keys[ks].live_idx < 0) { skipped++; continue; }   /* precondition */
            struct ment *e = &live[keys[ks].live_idx];
            struct ment newe = *e;
            newe.d = o->d; newe.i = o->i;
            if (precedes(c->kind, &newe, e)) up++;
            else if (precedes(c->kind, e, &newe)) down++;
            cmi_hashheap_reprioritize(hp, keys[ks].key, o->d, o->i);
            e->d = o->d; e->i = o->i;
            break;
        }
        case HH_PFIND: case HH_PCOUNT: case HH_PCANCEL: {
            int cnt = 0;
            for (int a = 0; a < nlive; a++) if (pat_match(&live[a], o->pl)) cnt++;
            if (cnt >= 2) multi_pat++;
            if (o->op == HH_PCOUNT) {
                const uint64_t r = cmi_hashheap_pattern_count(hp, o->pl[0], o->pl[1], o->pl[2], o->pl[3]);
                if (r != (uint64_t)cnt) FAIL("pattern_count %" PRIu64 " model %d", r, cnt);
            }
            else if (o->op == HH_PFIND) {
                const uint64_t r = cmi_hashheap_pattern_find(hp, o->pl[0], o->pl[1], o->pl[2], o->pl[3]);
                if (cnt == 0) {
                    if (r != 0) FAIL("pattern_find returned %" PRIu64 " but nothing matches", r);
                }
                else {
                    if (r == 0) FAIL("pattern_find returned 0 but %d match", cnt);
                    const int ks = key_slot(r);
                    if (keys[ks].live_idx < 0 || !pat_match(&live[keys[ks].live_idx], o->pl)) {
                        FAIL("pattern_find returned key %" PRIu64 " which does not match", r);
                    }
                }
            }
            else {
                if (nlive == 0 && hp->heap == NULL) { skipped++; continue; }
                const uint64_t r = cmi_hashheap_pattern_cancel(hp, o->pl[0], o->pl[1], o->pl[2], o->pl[3]);
                if (r != (uint64_t)cnt) FAIL("pattern_cancel %" PRIu64 " model %d", r, cnt);
                for (int a = nlive - 1; a >= 0; a--) if (pat_match(&live[a], o->pl)) model_del(a);
            }
            break;
        }
        case HH_CLEAR:
            cmi_hashheap_clear(hp);
            for (int a = nlive - 1; a >= 0; a--) model_del(a);
            break;
        case HH_RESET:
            cmi_hashheap_reset(hp);
            for (int a = nlive - 1; a >= 0; a--) model_del(a);
            last_size = hp->heap_size;
            break;
        }
        if (hp->heap_size > last_size) { growth++; }
        last_size = hp->heap_size;
        if (nlive > maxlive) maxlive = nlive;
        const int r = cross_check(hp, c->kind, trace, n, o);
        if (r != 0) return r;
    }
    (void)tombstone_reuse;
    fprintf(trace, "N ops=%d skipped=%u growth=%u reinsert=%u collide=%u up=%u down=%u multipat=%u maxlive=%d\n",
            c->nops, skipped, growth, reinsert, collide, up, down, multi_pat, maxlive);

    if (own) cmi_hashheap_destroy(own);
    if (res) cmb_resource_destroy(res);
    if (pool) cmb_resourcepool_destroy(pool);
    if (pq) cmb_priorityqueue_destroy(pq);
    return CIMX_OK;
}

/* -------------------------------------------------------------- parsing -- */

static void *parse_pl(const char *s)
{
    if (strcmp(s, "*") == 0) return CMI_ANY_ITEM;
    return (void *)(uintptr_t)cimx_u64(s);
}

int hh_parse(char *text, struct hh_case *c)
{
    char *cursor = text;
    char *line;
    char *tok[12];
    int cap = 0;
    c->nops = 0;
    c->ops = NULL;
    c->kind = HH_DEFAULT;
    c->exp = 3;
    while ((line = cimx_next_line(&cursor)) != NULL) {
        const int nt = cimx_split(line, tok, 12);
        if (nt == 0) continue;
        if (strcmp(tok[0], "kind") == 0 && nt >= 3) {
            int k = -1;
            for (int j = 0; j < 4; j++) if (strcmp(tok[1], kind_names[j]) == 0) k = j;
            if (k < 0) return -1;
            c->kind = (enum hh_kind)k;
            c->exp = (unsigned)cimx_u64(tok[2]);
            continue;
        }
        int op = -1;
        for (int j = 0; j < (int)(sizeof op_names / sizeof op_names[0]); j++) {
            if (strcmp(tok[0], op_names[j]) == 0) op = j;
        }
        if (op < 0) return -1;
        if (c->nops == cap) {
            cap = cap ? cap * 2 : 64;
            c->ops = realloc(c->ops, (size_t)cap * sizeof *c->ops);
        }
        struct hh_op *o = &c->ops[c->nops++];
        memset(o, 0, sizeof *o);
        o->op = (enum hh_opcode)op;
        switch (o->op) {
        case HH_ENQ:
            if (nt < 7) return -1;
            if (strcmp(tok[1], "auto") == 0) o->key_is_auto = 1;
            else if (sscanf(tok[1], "c%u.%u", &o->kg, &o->kn) != 2) return -1;
            o->d = cimx_dbl(tok[2]);
            o->i = cimx_i64(tok[3]);
            for (int j = 0; j < 3; j++) o->pl[j] = parse_pl(tok[4 + j]);
            break;
        case HH_REM: case HH_QUERY:
            if (nt < 2 || tok[1][0] != '@') return -1;
            o->ref = (unsigned)cimx_u64(tok[1] + 1);
            break;
        case HH_REPRIO:
            if (nt < 4 || tok[1][0] != '@') return -1;
            o->ref = (unsigned)cimx_u64(tok[1] + 1);
            o->d = cimx_dbl(tok[2]);
            o->i = cimx_i64(tok[3]);
            break;
        case HH_PFIND: case HH_PCOUNT: case HH_PCANCEL:
            if (nt < 5) return -1;
            for (int j = 0; j < 4; j++) o->pl[j] = parse_pl(tok[1 + j]);
            break;
        default:
            break;
        }
    }
    return 0;
}

int mode_hashheap(char *text, FILE *trace)
{
    struct hh_case c;
    if (hh_parse(text, &c) != 0) {
        fprintf(trace, "F parse error\n");
        return CIMX_PARSE_ERROR;
    }
    const int r = hh_run(&c, trace);
    free(c.ops);
    return r;
}
