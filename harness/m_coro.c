/* placeholder, replaced when the mode is implemented */
#include "cimx.h"
int mode_coro(char *text, FILE *trace) { (void)text; fprintf(trace, "F mode coro not implemented\n"); return CIMX_PARSE_ERROR; }
