/*
 * m_coro.c - C03: context switches preserve each coroutine's execution state
 * and deliver messages.
 *
 * A case is a PROGRAM: one script of steps per actor (actor 0 = main /
 * dispatcher, actors 1..n = coroutines or processes). The executor interprets
 * the program with the real library API. Every library call that may switch is
 * issued
 *   - at the generated call depth (recursive frames holding canary arrays),
 *   - through the nasm probe coro_probe_call (coro_probe.asm), which loads
 *     generated 64-bit patterns into rbx, rbp, r12-r15 and a generated MXCSR,
 *     calls coro_thunk() (the one library call) and stores the registers and
 *     MXCSR again when the call returns.
 * A reference model of the documented semantics (status / caller / parent /
 * current; for layer "process" also the event queue: time, FIFO) runs in
 * lockstep: the actor that gives up control records who must get control next
 * and with which message; whoever gets control checks that it is the expected
 * actor, in the expected way (function entry / return from its own switch call /
 * exit function), with the expected message. A step whose documented
 * precondition is false in the model when it is reached is skipped and logged
 * (K line), never executed.
 *
 * layer raw     : cmi_coroutine_start/resume/transfer/yield/exit/stop, return
 *                 through the trampoline into the default exit function or into
 *                 a probing exit stub.
 * layer process : cmb_process_start (start event), cmb_event_execute_next (the
 *                 dispatcher, through the probe), cmb_process_hold/yield/resume/
 *                 stop/exit, return through the trampoline into
 *                 cmb_process_exit, cmb_process_exit_value.
 *
 * Trace lines:  B entry, S switch call, R return of a switch call, X exit
 * function, K skipped step, P parked, N summary counters, F oracle failure.
 */
#include <inttypes.h>
#include <stdarg.h>
#include <stdlib.h>
#include <string.h>
#include <unistd.h>

#include "cmb_event.h"
#include "cmb_logger.h"
#include "cmb_process.h"
#include "cmi_coroutine.h"

#include "cimx.h"

/* ------------------------------------------------------ shared with asm -- */

struct coro_probe_io {
    uint64_t in[6];             /* rbx rbp r12 r13 r14 r15 */
    uint64_t out[6];
    uint32_t mxcsr_in;
    uint32_t mxcsr_out;
    uint64_t rsp_in;
    uint64_t rsp_out;
    uint64_t guard_out;
    /* thunk part (C only) */
    int op;
    void *target;
    uint64_t val;
    uint64_t ret;
};

struct coro_snap {
    uint64_t rsp, rbx, rbp, r12, r13, r14, r15;
    uint32_t mxcsr;
    uint32_t movaps_done;
};

#define PROBE_GUARD UINT64_C(0x5ca1ab1ec0ffee11)

extern void coro_probe_call(struct coro_probe_io *io, void (*thunk)(struct coro_probe_io *));
extern void *coro_entry_stub(struct cmi_coroutine *cp, void *context);
extern void coro_exit_stub(void *retval);
extern struct coro_snap coro_entry_snap, coro_exit_snap;
void *coro_body(struct cmi_coroutine *cp, void *context);
void coro_exit_body(void *retval);

/* ---------------------------------------------------------------- types -- */

#define MAXCO 6
#define MAXACT (MAXCO + 1)
#define MAXDEPTH 40
#define CANARY_N 6
#define MXCSR_CONTROL 0xFFC0u       /* DAZ, six masks, rounding control, FTZ */
#define MXCSR_DEFAULT 0x1F80u
#define PARK_MSG UINT64_C(0x7061726b65642121)

enum { L_RAW, L_PROC };
enum { ST_CREATED = 0, ST_RUNNING = 1, ST_FINISHED = 2 };
enum {
    OP_START, OP_RESUME, OP_TRANSFER, OP_YIELD, OP_RETURN, OP_EXIT, OP_STOP,
    OP_PSTART, OP_PRESUME, OP_PSTOP, OP_RUN, OP_HOLD, OP_PYIELD, OP_PEXIT, OP_PRETURN,
    OP_COUNT
};
static const char *const opname[OP_COUNT] = {
    "start", "resume", "transfer", "yield", "return", "exit", "stop",
    "pstart", "presume", "pstop", "run", "hold", "pyield", "pexit", "preturn"
};

struct step {
    int op, tgt, depth, idx;
    uint64_t val;
    uint64_t regs[6];
    uint32_t mxcsr;
};

struct actor {
    int id;
    struct cmi_coroutine *cp;
    struct cmb_process *pp;
    uint64_t ctx;
    size_t stack_size;
    int exitfn;                 /* raw: 0 = library default, 1 = probing stub */
    struct step *steps;
    int nsteps, capsteps, pc;
    /* model */
    int status, caller, parent;
    uint64_t exit_value;
    int incarnation;
    int stopped_by_other;       /* last end was a stop by someone else */
    int entered;                /* function entered at least once */
    int resumed;                /* returned from a switch call at least once */
    int timer;                  /* process layer: model event of the pending hold timer */
    uint64_t parks;
};

enum { EX_NONE, EX_ENTRY, EX_RETURN, EX_EXITFN };
static const char *const exname[] = { "nothing", "function entry", "return of its switch call",
                                      "exit function" };

static struct {
    int actor, kind, check;
    uint64_t msg;
} expect;

/* process-layer model of the event queue */
enum { EV_START, EV_TIMER, EV_RESUME };
struct mev { int live, kind, proc; double t; uint64_t seq; int64_t sig; };
#define MAXMEV 8192
static struct mev mq[MAXMEV];
static int nmq;
static uint64_t mq_seq;
static double m_now;

static FILE *tr;
static int layer;
static int nact;                    /* actors including main */
static struct actor act[MAXACT];
static int m_current;               /* model: who has control */
static int m_switching;             /* set by m_pre: the call about to be made gives up control */

static struct {
    uint64_t steps, skipped, probes, switches, maxdepth, deep, deep_nd, nondefault,
        unmasked, rcmask, starts, restarts, stoprestart, tramp, exits, exit_deep, stops,
        parks, yields, transfers, resumes, mainyield, nested_start, flagsdiff, events,
        holds, timerwake, resumewake, exitprobe, selfstop;
} cnt;

/* -------------------------------------------------------------- failure -- */

__attribute__((noreturn, format(printf, 1, 2)))
static void fail(const char *fmt, ...)
{
    va_list ap;
    fputs("F ", tr);
    va_start(ap, fmt);
    vfprintf(tr, fmt, ap);
    va_end(ap);
    fputc('\n', tr);
    fflush(tr);
    _exit(CIMX_ORACLE_FAIL);
}

static const char *aname(const int id)
{
    static const char *const names[MAXACT] = { "main", "c1", "c2", "c3", "c4", "c5", "c6" };
    return (id >= 0 && id < MAXACT) ? names[id] : "none";
}

/* ------------------------------------------------- model: event queue ---- */

static int mq_add(const int kind, const int proc, const int64_t sig, const double t)
{
    if (nmq >= MAXMEV) fail("machinery: model event queue overflow");
    mq[nmq] = (struct mev){ 1, kind, proc, t, mq_seq++, sig };
    return nmq++;
}

static int mq_count(void)
{
    int n = 0;
    for (int i = 0; i < nmq; i++) n += mq[i].live;
    return n;
}

static int mq_next(void)
{
    int best = -1;
    for (int i = 0; i < nmq; i++) {
        if (!mq[i].live) continue;
        /* documented order: time, then priority (all equal here), then FIFO */
        if (best < 0 || mq[i].t < mq[best].t
            || (mq[i].t == mq[best].t && mq[i].seq < mq[best].seq)) best = i;
    }
    return best;
}

static void mq_remove_subject(const int proc)
{
    for (int i = 0; i < nmq; i++) if (mq[i].proc == proc) mq[i].live = 0;
    act[proc].timer = -1;
}

static int mq_start_pending(const int proc)
{
    for (int i = 0; i < nmq; i++)
        if (mq[i].live && mq[i].proc == proc && mq[i].kind == EV_START) return 1;
    return 0;
}

/* --------------------------------------- cross-check of library state ---- */

static void *handle_of(const struct actor *a)
{
    return (a->id == 0) ? (void *)cmi_coroutine_main() : (void *)a->cp;
}

static void cross_check(const struct actor *me, const char *where)
{
    if ((void *)cmi_coroutine_current() != handle_of(me))
        fail("current: cmi_coroutine_current() is not the handle of %s %s", aname(me->id), where);
    if (layer == L_PROC) {
        if (cmb_process_current() != (me->id == 0 ? NULL : me->pp))
            fail("current: cmb_process_current() wrong in %s %s", aname(me->id), where);
        if (cmb_time() != m_now)
            fail("machinery-or-time: cmb_time() %a but model time %a in %s %s",
                 cmb_time(), m_now, aname(me->id), where);
        if (cmb_event_queue_count() != (uint64_t)mq_count())
            fail("machinery-or-queue: %" PRIu64 " events queued, model has %d, in %s %s",
                 cmb_event_queue_count(), mq_count(), aname(me->id), where);
    }
    for (int i = 1; i < nact; i++) {
        const struct actor *a = &act[i];
        const int st = (int)cmi_coroutine_status(a->cp);
        if (st != a->status)
            fail("status: %s has status %d, model says %d (seen from %s %s)",
                 aname(i), st, a->status, aname(me->id), where);
        const uint64_t ev = (uint64_t)(uintptr_t)cmi_coroutine_exit_value(a->cp);
        const uint64_t want = (a->status == ST_FINISHED) ? a->exit_value : 0;
        if (ev != want)
            fail("exit-value: %s (status %d) has exit value %#" PRIx64 ", expected %#" PRIx64
                 " (seen from %s %s)", aname(i), a->status, ev, want, aname(me->id), where);
        if (layer == L_PROC) {
            const uint64_t pv = (uint64_t)(uintptr_t)cmb_process_exit_value(a->pp);
            if (pv != want)
                fail("exit-value: cmb_process_exit_value(%s) %#" PRIx64 ", expected %#" PRIx64,
                     aname(i), pv, want);
        }
        /* a suspended or ended coroutine's saved stack pointer: the context
           switch was called from ABI-compliant code, so it is 8 mod 16 */
        if (i != me->id && a->entered
            && (((uintptr_t)a->cp->stack_pointer + 8u) % 16u) != 0u)
            fail("saved-sp-alignment: %s (status %d) saved stack pointer %p is not 8 mod 16",
                 aname(i), a->status, (void *)a->cp->stack_pointer);
    }
}

static void arrive(struct actor *a, const int kind, const uint64_t got)
{
    if (expect.kind == EX_NONE)
        fail("control: %s got control (%s) with no transfer outstanding", aname(a->id), exname[kind]);
    if (expect.actor != a->id || expect.kind != kind)
        fail("control: %s got control by %s, model expects %s by %s",
             aname(a->id), exname[kind], aname(expect.actor), exname[expect.kind]);
    if (expect.check && got != expect.msg)
        fail("message: %s received %#" PRIx64 " by %s, expected %#" PRIx64,
             aname(a->id), got, exname[kind], expect.msg);
    expect.kind = EX_NONE;
    m_current = a->id;
    cross_check(a, exname[kind]);
}

static void expect_set(const int actor, const int kind, const int check, const uint64_t msg)
{
    expect.actor = actor;
    expect.kind = kind;
    expect.check = check;
    expect.msg = msg;
}

/* ------------------------------------------------------ model: raw layer - */

/* control passes from -> to with msg: "to" is suspended inside a switch call */
static void m_transfer(const struct actor *from, struct actor *to, const uint64_t msg)
{
    to->caller = from->id;
    expect_set(to->id, EX_RETURN, 1, msg);
}

static void m_begin(struct actor *c, const int starter)
{
    if (c->status == ST_FINISHED) {
        cnt.restarts++;
        if (c->stopped_by_other) cnt.stoprestart++;
    }
    c->parent = starter;
    c->caller = starter;
    c->exit_value = 0;
    c->status = ST_RUNNING;
    c->stopped_by_other = 0;
    c->incarnation++;
    cnt.starts++;
    if (starter != 0) cnt.nested_start++;
    /* the message given to start is not observable by the new coroutine */
    expect_set(c->id, EX_ENTRY, 0, 0);
}

static void m_finish(struct actor *a, const uint64_t val)
{
    a->status = ST_FINISHED;
    a->exit_value = val;
    a->stopped_by_other = 0;
    if (layer == L_RAW) {
        m_transfer(a, &act[a->parent], val);
    }
    else {
        mq_remove_subject(a->id);
        /* back in the dispatcher: cmb_event_execute_next() returns true */
        act[0].caller = a->id;
        expect_set(0, EX_RETURN, 1, 1);
    }
}

static int parent_running(const struct actor *a)
{
    return a->parent >= 0 && act[a->parent].status == ST_RUNNING;
}

/* Documented precondition of the step in the model state; NULL = enabled */
static const char *disabled(const struct actor *a, const struct step *s)
{
    const int t = s->tgt;
    const int is_co = (t >= 1 && t < nact);
    switch (s->op) {
    case OP_START:
        if (!is_co) return "no-such-coroutine";
        if (act[t].status == ST_RUNNING) return "target-running";
        return NULL;
    case OP_RESUME:
    case OP_TRANSFER:
        if (t < 0 || t >= nact) return "no-such-coroutine";
        if (t == a->id) return "target-is-self";
        if (act[t].status != ST_RUNNING) return "target-not-running";
        return NULL;
    case OP_YIELD:
        if (a->caller < 0) return "no-caller";
        if (a->caller == a->id) return "caller-is-self";
        if (act[a->caller].status != ST_RUNNING) return "caller-not-running";
        return NULL;
    case OP_RETURN:
    case OP_EXIT:
        if (a->id == 0) return "main-cannot-exit";
        if (!parent_running(a)) return "parent-not-running";
        return NULL;
    case OP_STOP:
        if (!is_co) return "no-such-coroutine";
        if (act[t].status != ST_RUNNING) return "target-not-running";
        if (t == a->id && !parent_running(a)) return "parent-not-running";
        return NULL;
    case OP_PSTART:
        if (!is_co) return "no-such-process";
        if (act[t].status == ST_RUNNING) return "target-running";
        if (mq_start_pending(t)) return "start-pending";
        return NULL;
    case OP_PRESUME:
        if (!is_co) return "no-such-process";
        if (act[t].status != ST_RUNNING) return "target-not-running";
        if (s->val == 0) return "signal-zero";
        return NULL;
    case OP_PSTOP:
        if (!is_co) return "no-such-process";
        if (act[t].status != ST_RUNNING) return "target-not-running";
        return NULL;
    case OP_RUN:
        return (a->id == 0) ? NULL : "not-dispatcher";
    case OP_HOLD:
    case OP_PYIELD:
    case OP_PEXIT:
    case OP_PRETURN:
        return (a->id != 0) ? NULL : "dispatcher";
    default:
        return "unknown";
    }
}

/* Model effect of the library call about to be made by actor a; sets expect.
   Returns 0 for a run step that finds the event queue empty, else 1. */
static int m_pre(struct actor *a, const struct step *s)
{
    struct actor *t = (s->tgt >= 0 && s->tgt < nact) ? &act[s->tgt] : NULL;
    m_switching = 1;
    switch (s->op) {
    case OP_START:
        m_begin(t, a->id);
        break;
    case OP_RESUME:
        cnt.resumes++;
        m_transfer(a, t, s->val);
        break;
    case OP_TRANSFER:
        cnt.transfers++;
        m_transfer(a, t, s->val);
        break;
    case OP_YIELD:
        cnt.yields++;
        if (a->id == 0) cnt.mainyield++;
        m_transfer(a, &act[a->caller], s->val);
        break;
    case OP_EXIT:
        cnt.exits++;
        if (s->depth > 0) cnt.exit_deep++;
        m_finish(a, s->val);
        break;
    case OP_STOP:
        cnt.stops++;
        if (t == a) {
            cnt.selfstop++;
            m_finish(a, s->val);
        }
        else {
            t->status = ST_FINISHED;
            t->exit_value = s->val;
            t->stopped_by_other = 1;
            m_switching = 0;
            expect_set(a->id, EX_RETURN, 0, 0);
        }
        break;
    case OP_PSTART:
        (void)mq_add(EV_START, t->id, 0, m_now);
        m_switching = 0;
        expect_set(a->id, EX_RETURN, 0, 0);
        break;
    case OP_PRESUME:
        cnt.resumes++;
        (void)mq_add(EV_RESUME, t->id, (int64_t)s->val, m_now);
        m_switching = 0;
        expect_set(a->id, EX_RETURN, 0, 0);
        break;
    case OP_PSTOP:
        cnt.stops++;
        if (t == a) {           /* a process stopping itself: like cmb_process_exit */
            cnt.selfstop++;
            m_finish(a, s->val);
            break;
        }
        t->status = ST_FINISHED;
        t->exit_value = s->val;
        t->stopped_by_other = 1;
        mq_remove_subject(t->id);
        m_switching = 0;
        expect_set(a->id, EX_RETURN, 0, 0);
        break;
    case OP_RUN: {
        const int e = mq_next();
        if (e < 0) {
            /* empty queue: cmb_event_execute_next() returns false, no switch */
            m_switching = 0;
            expect_set(a->id, EX_RETURN, 1, 0);
            return 0;
        }
        mq[e].live = 0;
        m_now = mq[e].t;
        cnt.events++;
        struct actor *p = &act[mq[e].proc];
        if (mq[e].kind == EV_START) {
            m_begin(p, 0);
        }
        else {
            if (mq[e].kind == EV_TIMER) { p->timer = -1; cnt.timerwake++; }
            else cnt.resumewake++;
            p->caller = 0;
            expect_set(p->id, EX_RETURN, 1, (uint64_t)mq[e].sig);
        }
        break;
    }
    case OP_HOLD:
        cnt.holds++;
        a->timer = mq_add(EV_TIMER, a->id, 0, m_now + (double)s->val);
        act[0].caller = a->id;
        expect_set(0, EX_RETURN, 1, 1);
        break;
    case OP_PYIELD:
        cnt.yields++;
        act[0].caller = a->id;
        expect_set(0, EX_RETURN, 1, 1);
        break;
    case OP_PEXIT:
        cnt.exits++;
        if (s->depth > 0) cnt.exit_deep++;
        m_finish(a, s->val);
        break;
    default:
        fail("machinery: m_pre op %d", s->op);
    }
    return 1;
}

/* --------------------------------------------------------------- thunk --- */

/* The ONE library call of a step, executed with the generated register and
   MXCSR contents loaded by coro_probe_call */
static void coro_thunk(struct coro_probe_io *io)
{
    switch (io->op) {
    case OP_START:
        io->ret = (uint64_t)(uintptr_t)cmi_coroutine_start(io->target, (void *)(uintptr_t)io->val);
        break;
    case OP_RESUME:
        io->ret = (uint64_t)(uintptr_t)cmi_coroutine_resume(io->target, (void *)(uintptr_t)io->val);
        break;
    case OP_TRANSFER:
        io->ret = (uint64_t)(uintptr_t)cmi_coroutine_transfer(io->target, (void *)(uintptr_t)io->val);
        break;
    case OP_YIELD:
        io->ret = (uint64_t)(uintptr_t)cmi_coroutine_yield((void *)(uintptr_t)io->val);
        break;
    case OP_EXIT:
        cmi_coroutine_exit((void *)(uintptr_t)io->val);
        break;
    case OP_STOP:
        cmi_coroutine_stop(io->target, (void *)(uintptr_t)io->val);
        break;
    case OP_PSTART:
        cmb_process_start(io->target);
        break;
    case OP_PRESUME:
        cmb_process_resume(io->target, (int64_t)io->val);
        break;
    case OP_PSTOP:
        cmb_process_stop(io->target, (void *)(uintptr_t)io->val);
        break;
    case OP_RUN:
        io->ret = (uint64_t)cmb_event_execute_next();
        break;
    case OP_HOLD:
        io->ret = (uint64_t)cmb_process_hold((double)io->val);
        break;
    case OP_PYIELD:
        io->ret = (uint64_t)cmb_process_yield();
        break;
    case OP_PEXIT:
        cmb_process_exit((void *)(uintptr_t)io->val);
        break;
    default:
        break;
    }
}

static const char *const regname[6] = { "rbx", "rbp", "r12", "r13", "r14", "r15" };

static uint64_t mix(uint64_t x)
{
    x ^= x >> 30; x *= UINT64_C(0xbf58476d1ce4e5b9);
    x ^= x >> 27; x *= UINT64_C(0x94d049bb133111eb);
    x ^= x >> 31;
    return x;
}

/* One probed library call. iter > 0 varies the patterns of repeated calls. */
static void probed_call(struct actor *a, const struct step *s, const int op, const uint64_t val,
                        const uint64_t iter)
{
    struct coro_probe_io io;
    memset(&io, 0, sizeof io);
    for (int j = 0; j < 6; j++)
        io.in[j] = iter ? (s->regs[j] ^ mix(iter * 8u + (uint64_t)j)) : s->regs[j];
    io.mxcsr_in = s->mxcsr;
    io.op = op;
    io.val = val;
    io.target = NULL;
    if (s->tgt >= 0 && s->tgt < nact) {
        if (layer == L_PROC) io.target = act[s->tgt].pp;
        else io.target = handle_of(&act[s->tgt]);
    }
    const int switching = m_switching;
    cnt.probes++;
    if (switching) {
        cnt.switches++;
        if ((uint64_t)s->depth > cnt.maxdepth) cnt.maxdepth = (uint64_t)s->depth;
        const int nd = (s->mxcsr & MXCSR_CONTROL) != MXCSR_DEFAULT;
        if (nd) cnt.nondefault++;
        if (s->depth > 0) { cnt.deep++; if (nd) cnt.deep_nd++; }
        if ((s->mxcsr & 0x1F80u) != 0x1F80u) cnt.unmasked++;
        cnt.rcmask |= UINT64_C(1) << ((s->mxcsr >> 13) & 3u);
    }
    fprintf(tr, "S %s %d %s %s %#" PRIx64 " d=%d m=%#x\n", aname(a->id), s->idx, opname[op],
            aname(s->tgt), val, s->depth, s->mxcsr);
    fflush(tr);

    coro_probe_call(&io, coro_thunk);

    /* back, possibly after many other coroutines ran */
    for (int j = 0; j < 6; j++) {
        if (io.out[j] != io.in[j])
            fail("register: %s not preserved across %s by %s: loaded %#" PRIx64 ", found %#" PRIx64,
                 regname[j], opname[op], (a->id == 0) ? "main" : "coroutine", io.in[j], io.out[j]);
    }
    if ((io.mxcsr_out & MXCSR_CONTROL) != (io.mxcsr_in & MXCSR_CONTROL))
        fail("mxcsr: control bits not preserved across %s by %s: loaded %#x, found %#x",
             opname[op], (a->id == 0) ? "main" : "coroutine", io.mxcsr_in, io.mxcsr_out);
    if (io.mxcsr_out != io.mxcsr_in) cnt.flagsdiff++;
    if (io.rsp_out != io.rsp_in || io.guard_out != PROBE_GUARD)
        fail("stack: stack pointer or guard word not preserved across %s (rsp %#" PRIx64 " -> %#"
             PRIx64 ", guard %#" PRIx64 ")", opname[op], io.rsp_in, io.rsp_out, io.guard_out);
    fprintf(tr, "R %s %d %#" PRIx64 "\n", aname(a->id), s->idx, io.ret);
    if (op == OP_HOLD && io.ret != 0 && a->timer >= 0) {
        /* woken by something else than its own timer: cmb_process_hold has cancelled the timer */
        mq[a->timer].live = 0;
        a->timer = -1;
    }
    arrive(a, EX_RETURN, io.ret);
    a->resumed = 1;
}

static void do_step(struct actor *a, const struct step *s)
{
    if (s->op == OP_RUN) {
        for (uint64_t i = 0; i < s->val; i++) {
            const int more = m_pre(a, s);
            probed_call(a, s, OP_RUN, 0, i);
            if (!more) break;
        }
    }
    else {
        (void)m_pre(a, s);
        probed_call(a, s, s->op, s->val, 0);
    }
}

/* Recursive frames holding canaries; the library call is made at the bottom,
   every frame verifies its canaries when control is back and unwinds. */
__attribute__((noinline))
static void descend(struct actor *a, const struct step *s, const int level)
{
    volatile uint64_t canary[CANARY_N];
    const uint64_t base = mix(((uint64_t)a->id << 48) ^ ((uint64_t)s->idx << 24) ^ (uint64_t)level);
    for (int j = 0; j < CANARY_N; j++) canary[j] = base + (uint64_t)j * UINT64_C(0x9e3779b97f4a7c15);
    if (level < s->depth) descend(a, s, level + 1);
    else do_step(a, s);
    for (int j = 0; j < CANARY_N; j++) {
        if (canary[j] != base + (uint64_t)j * UINT64_C(0x9e3779b97f4a7c15))
            fail("stack: canary %d of frame level %d of %s step %d (%s) changed: %#" PRIx64,
                 j, level, aname(a->id), s->idx, opname[s->op], canary[j]);
    }
}

/* Runs the script of a from its pc. Returns 1 if the function must return
   *retval (return step), 0 when the script is exhausted. */
static int interpret(struct actor *a, uint64_t *retval)
{
    volatile uint64_t canary[CANARY_N];
    const uint64_t base = mix(UINT64_C(0xb0d7) ^ ((uint64_t)a->id << 32) ^ (uint64_t)a->incarnation);
    for (int j = 0; j < CANARY_N; j++) canary[j] = base ^ (uint64_t)j;
    while (a->pc < a->nsteps) {
        const struct step *s = &a->steps[a->pc++];
        const char *why = disabled(a, s);
        if (why != NULL) {
            cnt.skipped++;
            fprintf(tr, "K %s %d %s %s %s\n", aname(a->id), s->idx, opname[s->op], aname(s->tgt), why);
            continue;
        }
        cnt.steps++;
        if (s->op == OP_RETURN || s->op == OP_PRETURN) {
            cnt.tramp++;
            fprintf(tr, "S %s %d %s - %#" PRIx64 " d=0 m=-\n", aname(a->id), s->idx, opname[s->op], s->val);
            fflush(tr);
            if (layer == L_RAW && a->exitfn == 1) expect_set(a->id, EX_EXITFN, 1, s->val);
            else m_finish(a, s->val);
            *retval = s->val;
            return 1;
        }
        descend(a, s, 0);
        for (int j = 0; j < CANARY_N; j++)
            if (canary[j] != (base ^ (uint64_t)j))
                fail("stack: canary %d of the body frame of %s changed after step %d", j, aname(a->id), s->idx);
    }
    return 0;
}

/* Script exhausted: hand control to main / the dispatcher whenever resumed */
__attribute__((noreturn))
static void park(struct actor *a)
{
    struct step s;
    memset(&s, 0, sizeof s);
    for (;;) {
        a->parks++;
        cnt.parks++;
        s.idx = -(int)a->parks;
        s.depth = 0;
        s.mxcsr = MXCSR_DEFAULT;
        for (int j = 0; j < 6; j++) s.regs[j] = mix(PARK_MSG ^ ((uint64_t)a->id << 8) ^ (a->parks * 8u + (uint64_t)j));
        fprintf(tr, "P %s\n", aname(a->id));
        if (layer == L_RAW) {
            s.op = OP_TRANSFER;
            s.tgt = 0;
            s.val = PARK_MSG;
        }
        else {
            s.op = OP_PYIELD;
            s.tgt = -1;
            s.val = 0;
        }
        do_step(a, &s);
    }
}

static struct actor *actor_of_handle(const void *h)
{
    for (int i = 1; i < nact; i++) if ((void *)act[i].cp == h) return &act[i];
    return NULL;
}

static void check_snap(const struct coro_snap *sn, const struct actor *a, const char *what)
{
    if ((sn->rsp % 16u) != 8u)
        fail("alignment: stack pointer %#" PRIx64 " at entry of %s of %s is not 8 mod 16",
             sn->rsp, what, aname(a->id));
    if (!sn->movaps_done)
        fail("machinery: aligned store not executed at entry of %s", what);
    const uintptr_t lo = (uintptr_t)a->cp->stack, hi = (uintptr_t)a->cp->stack_base;
    if (sn->rsp <= lo || sn->rsp > hi)
        fail("stack: %s of %s entered with rsp %#" PRIx64 " outside its own stack [%#" PRIxPTR ", %#"
             PRIxPTR "]", what, aname(a->id), sn->rsp, lo, hi);
}

/* The coroutine / process function (entered through coro_entry_stub) */
void *coro_body(struct cmi_coroutine *cp, void *context)
{
    const struct coro_snap sn = coro_entry_snap;
    struct actor *a = actor_of_handle(cp);
    if (a == NULL) {
        struct actor *e = (expect.kind != EX_NONE) ? &act[expect.actor] : NULL;
        fail("entry-args: function entered with handle %p, which is no coroutine of the case "
             "(expected %s = %p)", (void *)cp, e ? aname(e->id) : "?", e ? (void *)e->cp : NULL);
    }
    fprintf(tr, "B %s inc=%d ctx=%#" PRIx64 " mxcsr=%#x\n", aname(a->id), a->incarnation,
            (uint64_t)(uintptr_t)context, sn.mxcsr);
    if ((uint64_t)(uintptr_t)context != a->ctx)
        fail("entry-args: %s entered with context %#" PRIx64 ", expected %#" PRIx64,
             aname(a->id), (uint64_t)(uintptr_t)context, a->ctx);
    check_snap(&sn, a, "the coroutine function");
    a->entered = 1;
    arrive(a, EX_ENTRY, 0);
    if ((uint64_t)(uintptr_t)cmi_coroutine_context(cp) != a->ctx)
        fail("entry-args: cmi_coroutine_context(%s) differs from the context given", aname(a->id));
    uint64_t retval = 0;
    if (interpret(a, &retval)) return (void *)(uintptr_t)retval;
    park(a);
}

/* The probing exit function (raw layer, exitfn probe; entered through coro_exit_stub
   when the coroutine function returns through the trampoline) */
void coro_exit_body(void *retval)
{
    const struct coro_snap sn = coro_exit_snap;
    struct actor *a = actor_of_handle(cmi_coroutine_current());
    if (a == NULL) fail("control: exit function running but current coroutine is unknown");
    fprintf(tr, "X %s %#" PRIx64 "\n", aname(a->id), (uint64_t)(uintptr_t)retval);
    check_snap(&sn, a, "the exit function");
    cnt.exitprobe++;
    arrive(a, EX_EXITFN, (uint64_t)(uintptr_t)retval);
    m_finish(a, (uint64_t)(uintptr_t)retval);
    fflush(tr);
    cmi_coroutine_exit(retval);
    fail("control: cmi_coroutine_exit returned in %s", aname(a->id));
}

/* ---------------------------------------------------------------- parse -- */

static int parse_op(const char *s)
{
    for (int i = 0; i < OP_COUNT; i++) if (strcmp(s, opname[i]) == 0) return i;
    return -1;
}

static int parse(char *text)
{
    char *cur = text, *line, *tok[16];
    int total = 0;
    layer = -1;
    nact = 1;
    memset(act, 0, sizeof act);
    for (int i = 0; i < MAXACT; i++) {
        act[i].id = i;
        act[i].caller = act[i].parent = act[i].timer = -1;
    }
    act[0].status = ST_RUNNING;
    while ((line = cimx_next_line(&cur)) != NULL) {
        const int n = cimx_split(line, tok, 16);
        if (n == 0) continue;
        if (strcmp(tok[0], "layer") == 0 && n == 2) {
            layer = strcmp(tok[1], "raw") == 0 ? L_RAW : strcmp(tok[1], "process") == 0 ? L_PROC : -1;
            if (layer < 0) return -1;
        }
        else if (strcmp(tok[0], "co") == 0 && n == 5) {
            const int id = (int)cimx_i64(tok[1]);
            if (id != nact || id > MAXCO) return -1;
            act[id].ctx = cimx_u64(tok[2]);
            act[id].stack_size = (size_t)cimx_u64(tok[3]);
            if (act[id].stack_size < 32768 || act[id].stack_size > (1u << 20)) return -1;
            act[id].exitfn = strcmp(tok[4], "probe") == 0 ? 1 : strcmp(tok[4], "default") == 0 ? 0 : -1;
            if (act[id].exitfn < 0) return -1;
            nact++;
        }
        else if (strcmp(tok[0], "s") == 0 && n == 13) {
            const int id = (int)cimx_i64(tok[1]);
            if (id < 0 || id >= nact || layer < 0) return -1;
            struct actor *a = &act[id];
            if (a->nsteps == a->capsteps) {
                a->capsteps = a->capsteps ? a->capsteps * 2 : 16;
                a->steps = realloc(a->steps, (size_t)a->capsteps * sizeof *a->steps);
            }
            struct step *s = &a->steps[a->nsteps];
            s->op = parse_op(tok[2]);
            if (s->op < 0) return -1;
            if ((layer == L_RAW) != (s->op <= OP_STOP)) return -1;
            s->tgt = strcmp(tok[3], "-") == 0 ? -1 : (int)cimx_i64(tok[3]);
            s->val = cimx_u64(tok[4]);
            s->depth = (int)cimx_i64(tok[5]);
            if (s->depth < 0 || s->depth > MAXDEPTH) return -1;
            for (int j = 0; j < 6; j++) s->regs[j] = cimx_u64(tok[6 + j]);
            const uint64_t m = cimx_u64(tok[12]);
            if (m & ~UINT64_C(0xFFFF)) return -1;       /* reserved bits: ldmxcsr would fault */
            s->mxcsr = (uint32_t)m;
            if (s->op == OP_HOLD && s->val > 16) return -1;
            if (s->op == OP_RUN && s->val > 64) return -1;
            s->idx = a->nsteps++;
            if (++total > 6000) return -1;
        }
        else {
            return -1;
        }
    }
    if (layer < 0 || nact < 2) return -1;
    return 0;
}

/* ----------------------------------------------------------------- mode -- */

int mode_coro(char *text, FILE *trace)
{
    tr = trace;
    memset(&cnt, 0, sizeof cnt);
    memset(&expect, 0, sizeof expect);
    nmq = 0; mq_seq = 0; m_now = 0.0; m_current = 0;
    if (parse(text) != 0) {
        fprintf(trace, "F cannot parse coro case\n");
        return CIMX_PARSE_ERROR;
    }
    cmb_logger_flags_off(CMB_LOGGER_INFO | CMB_LOGGER_WARNING);

    if (layer == L_PROC) cmb_event_queue_initialize(0.0);
    for (int i = 1; i < nact; i++) {
        struct actor *a = &act[i];
        if (layer == L_RAW) {
            a->cp = cmi_coroutine_create();
            cmi_coroutine_initialize(a->cp, coro_entry_stub, (void *)(uintptr_t)a->ctx,
                                     a->exitfn ? coro_exit_stub : NULL, a->stack_size);
        }
        else {
            char name[16];
            snprintf(name, sizeof name, "p%d", i);
            a->pp = cmb_process_create();
            cmb_process_initialize(a->pp, name, (cmb_process_func *)coro_entry_stub,
                                   (void *)(uintptr_t)a->ctx, 0);
            a->cp = (struct cmi_coroutine *)a->pp;
        }
        if (cmi_coroutine_status(a->cp) != CMI_COROUTINE_CREATED)
            fail("status: new coroutine %s is not in state created", aname(i));
    }
    struct actor *me = &act[0];
    cross_check(me, "before the first step");

    uint64_t dummy;
    if (interpret(me, &dummy)) fail("machinery: main returned");

    /* end of main's script: stop whoever is still running, final checks */
    cross_check(me, "after main's last step");
    for (int i = 1; i < nact; i++) {
        struct actor *a = &act[i];
        if (a->status != ST_RUNNING) continue;
        const uint64_t v = UINT64_C(0xf17a100000000000) + (uint64_t)i;
        if (layer == L_RAW) cmi_coroutine_stop(a->cp, (void *)(uintptr_t)v);
        else { cmb_process_stop(a->pp, (void *)(uintptr_t)v); mq_remove_subject(i); }
        a->status = ST_FINISHED;
        a->exit_value = v;
        cross_check(me, "after the final stop");
    }
    for (int i = 1; i < nact; i++) {
        if (layer == L_RAW) { cmi_coroutine_terminate(act[i].cp); cmi_coroutine_destroy(act[i].cp); }
        else { cmb_process_terminate(act[i].pp); cmb_process_destroy(act[i].pp); }
    }
    if (layer == L_PROC) { cmb_event_queue_clear(); cmb_event_queue_terminate(); }

    int entered = 0, resumed = 0;
    for (int i = 1; i < nact; i++) { entered += act[i].entered; resumed += act[i].resumed; }
    fprintf(trace, "N layer=%s actors=%d steps=%" PRIu64 " skipped=%" PRIu64 " probes=%" PRIu64
            " switches=%" PRIu64 " maxdepth=%" PRIu64 " deep=%" PRIu64 " deep_nd=%" PRIu64
            " nondefault=%" PRIu64 " unmasked=%" PRIu64 " rcmask=%" PRIu64 " entered=%d resumed=%d"
            " starts=%" PRIu64 " restarts=%" PRIu64 " stoprestart=%" PRIu64 " tramp=%" PRIu64
            " exitprobe=%" PRIu64 " exits=%" PRIu64 " exit_deep=%" PRIu64 " stops=%" PRIu64
            " parks=%" PRIu64 " yields=%" PRIu64 " transfers=%" PRIu64 " resumes=%" PRIu64
            " mainyield=%" PRIu64 " nested_start=%" PRIu64 " flagsdiff=%" PRIu64 " events=%" PRIu64
            " holds=%" PRIu64 " timerwake=%" PRIu64 " resumewake=%" PRIu64 " selfstop=%" PRIu64 "\n",
            layer == L_RAW ? "raw" : "process", nact - 1, cnt.steps, cnt.skipped, cnt.probes,
            cnt.switches, cnt.maxdepth, cnt.deep, cnt.deep_nd, cnt.nondefault, cnt.unmasked,
            cnt.rcmask, entered, resumed, cnt.starts, cnt.restarts, cnt.stoprestart, cnt.tramp,
            cnt.exitprobe, cnt.exits, cnt.exit_deep, cnt.stops, cnt.parks, cnt.yields,
            cnt.transfers, cnt.resumes, cnt.mainyield, cnt.nested_start, cnt.flagsdiff, cnt.events,
            cnt.holds, cnt.timerwake, cnt.resumewake, cnt.selfstop);
    for (int i = 0; i < nact; i++) free(act[i].steps);
    return CIMX_OK;
}
