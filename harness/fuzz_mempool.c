/*
 * fuzz_mempool.c - libFuzzer front end for C20 (thorough tier, `fuzz` variant).
 *
 * Bytes are decoded structure-aware into the same struct mp_case the text path
 * parses, and executed by the same mp_run() with the same in-executor oracle
 * (harness/m_mempool.c). An oracle failure prints the F-line and the case in
 * text form and abort()s, so libFuzzer stores a crash-* artifact; sanitizer
 * reports do the same by themselves.
 *
 *   FUZZ_MEMPOOL_PRINT=<path> fuzz_mempool <artifact>
 * writes the decoded case as a text replay to <path> without running it; the
 * Python side re-runs that text through cimx (fork isolation, 3x confirmation).
 *
 * Runs must be a pure function of the input although they share one process:
 * dynamic pools are created and destroyed per run; a case that names a static
 * (thread-local) pool is always executed in a fresh pthread, whose thread-local
 * storage starts from the static initialiser again.
 */
#include <stdint.h>
#include <stdio.h>
#include <stdlib.h>
#include <string.h>
#include <unistd.h>

#include "cimx.h"
#include "m_mempool.h"

#define PAGE 4096u
#define MAX_OPS 48

static const uint16_t sz_table[] = { 8, 16, 24, 32, 40, 64, 72, 128, 520, 1024, 1368, 2040, 2048, 2056,
                                     3000, 4088, 4096, 4104, 6000, 8192 };
static const uint16_t num_table[] = { 1, 1, 1, 2, 2, 3, 4, 16, 57, 128, 256, 300 };
static const uint8_t k_table[] = { 1, 1, 2, 2, 3, 63, 64, 64, 65, 127, 128, 129 };
static const uint16_t static_sz[16] = { 8, 8, 16, 24, 32, 72, 1368, 2048, 2056, 4088, 4096, 4096, 4104, 32, 16, 16 };
static const uint16_t static_num[16] = { 1, 600, 256, 100, 128, 57, 3, 1, 1, 1, 1, 2, 1, 128, 256, 256 };

#define NELEM(a) (sizeof(a) / sizeof((a)[0]))

struct rd { const uint8_t *p; size_t n, i; };

static unsigned next(struct rd *r)
{
    return (r->i < r->n) ? r->p[r->i++] : 0u;
}

static void geometry(struct rd *r, size_t *sz, uint64_t *num)
{
    const unsigned a = next(r), b = next(r);
    if (a & 0x80u) *sz = 8u * (1u + (((a & 0x7fu) << 3 | (b >> 5)) % 1024u));
    else *sz = sz_table[a % NELEM(sz_table)];
    if (b & 0x10u) *num = 1u + ((b & 0xfu) * 20u + (a & 0xfu)) % 300u;
    else *num = num_table[(b & 0xfu) % NELEM(num_table)];
}

static uint64_t incr_of(const size_t sz, const uint64_t num)
{
    const uint64_t isz = ((sz * num + PAGE - 1u) / PAGE) * PAGE;
    return isz / sz;
}

static void decode(const uint8_t *data, const size_t size, struct mp_case *c, struct mp_op *ops)
{
    struct rd r = { data, size, 0 };
    memset(c, 0, sizeof *c);
    c->ops = ops;
    const unsigned h = next(&r);
    c->in_thread = (int)(h & 1u);
    c->npools = 1 + (int)((h >> 1) % MP_MAX_POOLS);
    uint64_t incr[MP_MAX_POOLS];
    unsigned used = 0;
    for (int k = 0; k < c->npools; k++) {
        struct mp_pooldef *d = &c->pools[k];
        const unsigned kind = next(&r);
        if ((kind & 3u) == 3u) {
            unsigned idx = (kind >> 2) % mp_static_count();
            while (used & (1u << idx)) idx = (idx + 1u) % mp_static_count();
            used |= 1u << idx;
            d->is_static = 1;
            d->static_idx = idx;
            incr[k] = incr_of(static_sz[idx], static_num[idx]);
            c->in_thread = 1;       /* fresh thread-local storage per run */
        }
        else {
            geometry(&r, &d->obj_sz, &d->obj_num);
            incr[k] = incr_of(d->obj_sz, d->obj_num);
        }
    }
    while (r.i < r.n && c->nops < MAX_OPS) {
        const unsigned b = next(&r);
        struct mp_op *o = &ops[c->nops++];
        memset(o, 0, sizeof *o);
        o->pool = (b >> 3) % (unsigned)c->npools;
        const uint64_t inc = incr[o->pool];
        switch (b & 7u) {
        case 0: case 1:
            o->op = MP_ALLOC;
            o->n = 1u + next(&r) % 8u;
            break;
        case 2: {
            const unsigned a = next(&r);
            o->op = MP_ALLOC;
            const uint64_t n = k_table[(a & 0xfu) % NELEM(k_table)] * inc + ((a >> 4) & 3u);
            o->n = (unsigned)(n > 1 ? n - 1 : 1);
            if (o->n > MP_MAX_LIVE) o->n = MP_MAX_LIVE;
            break;
        }
        case 3:
            o->op = MP_FREE;
            o->ref = next(&r);
            o->n = 1u + next(&r) % 4u;
            break;
        case 4: {
            static const uint8_t fk[] = { 1, 1, 2, 32, 64 };
            o->op = MP_FREE;
            o->ref = next(&r);
            const unsigned a = next(&r);
            const uint64_t n = fk[(a & 7u) % NELEM(fk)] * inc + ((a >> 4) & 3u);
            o->n = (unsigned)(n > 1 ? n - 1 : 1);
            if (o->n > MP_MAX_LIVE) o->n = MP_MAX_LIVE;
            break;
        }
        case 5:
            o->op = MP_FREE_LAST;
            o->n = 1u + next(&r) % 8u;
            break;
        case 6:
            if (c->pools[o->pool].is_static) {
                o->op = MP_CHECK;
            }
            else {
                o->op = MP_REINIT;
                geometry(&r, &o->obj_sz, &o->obj_num);
                incr[o->pool] = incr_of(o->obj_sz, o->obj_num);
            }
            break;
        default:
            o->op = MP_CHECK;
            break;
        }
    }
}

int LLVMFuzzerTestOneInput(const uint8_t *data, size_t size);

int LLVMFuzzerTestOneInput(const uint8_t *data, size_t size)
{
    static struct mp_op ops[MAX_OPS];
    struct mp_case c;
    decode(data, size, &c, ops);

    const char *print_to = getenv("FUZZ_MEMPOOL_PRINT");
    if (print_to != NULL) {
        FILE *f = fopen(print_to, "w");
        if (f != NULL) {
            mp_print_case(&c, f);
            fclose(f);
        }
        _exit(0);
    }

    char *buf = NULL;
    size_t len = 0;
    FILE *trace = open_memstream(&buf, &len);
    if (trace == NULL) return 0;
    const int r = mp_run(&c, trace);
    fclose(trace);
    if (r != CIMX_OK) {
        fprintf(stderr, "fuzz_mempool: oracle verdict %d\n%s", r, buf ? buf : "");
        mp_print_case(&c, stderr);
        fflush(stderr);
        abort();
    }
    free(buf);
    return 0;
}
