/*
 * m_experiment.c - C19: cimba_run_experiment runs every trial exactly once, on
 * its own element, returns after all have finished, and the results do not
 * depend on the assignment of trials to worker threads.
 *
 * A case describes an experiment: number of trials, trial struct size, a master
 * seed and a "mix" of trial kinds. Everything about trial i (kind, seed, amount
 * of work) is a pure function of (master, i), so a trial function "seeds the
 * generator from its own parameters". The same case text is executed in three
 * ways, each in its own fresh child process:
 *
 *   run par   cimba_run_experiment(array, n, size, func)   (the code under test)
 *   run seq   for i in 0..n-1: func(&array[i])              (single thread)
 *   run sub   for i in offset, offset+stride, ...: func(&array[i])   (single
 *             thread; what one worker sees when it is dealt a subset of the
 *             trials: "whatever ran earlier on the same worker thread";
 *             stride and offset come from the "subplan" line)
 *
 * In-executor oracle (run par): right after cimba_run_experiment returns no
 * trial is in flight and n trials have finished; no call received a pointer
 * that is not an element of the array; every element was called exactly once
 * (harness-side atomic shadow counter) and its own counter word is 1; guard
 * words at the end of every element and the payload written by the trial are
 * intact. The trace carries one digest per trial ("T" lines for the first 8192
 * trials, "B" lines = hash over blocks of 1024 trials for all of them); the
 * Python side demands par == seq on all lines and sub == seq on the trials the
 * sub-run executed.
 *
 * Trial element layout (S = trial struct size, a multiple of 8):
 *   S == 8            [ digest:48 | counter:16 ]
 *   S == 16           [ counter ][ digest ]
 *   S >= 24           [ counter ][ digest ][ payload ... ][ guard ]
 *   per-trial funcs   [ func ptr ] followed by the layout for S - 8 (S >= 16)
 */
#include <inttypes.h>
#include <pthread.h>
#include <stdatomic.h>
#include <stdlib.h>
#include <string.h>
#include <time.h>
#include <xmmintrin.h>

#include "cimba.h"

#include "cimx.h"

enum kind { K_ZERO = 0, K_BUSY, K_LONG, K_RNG, K_FLIP, K_SIM, K_TAGS, K_LOG, K_NAP, K_TIES, K_NKINDS };
static const char *const kind_names[K_NKINDS] = { "zero", "busy", "long", "rng", "flip", "sim", "tags", "log", "nap", "ties" };

enum runmode { RUN_PAR = 0, RUN_SEQ, RUN_SUB };

#define MAX_MIX 32
#define T_LINES 8192u
#define B_BLOCK 1024u
#define MAX_WORKERS 1024

struct xcase {
    enum runmode run;
    int perfunc;
    uint64_t n;
    size_t ssize;
    uint64_t master;
    int nmix;
    uint8_t mix[MAX_MIX];
    uint64_t tail_n;
    int tail_kind;
    uint64_t stride, offset;
};

/* ----------------------------------------------------------------- globals -- */
/* Written before the run, read-only while trials execute */
static struct xcase g;
static char *g_base;

/* Harness-side observation, all atomic */
static _Atomic uint8_t *g_calls;
static atomic_long g_inflight, g_finished, g_started;
static atomic_int g_badptr, g_wrongfunc;
static atomic_long g_badcalls;
static atomic_long g_badoff;
static atomic_int g_nworkers;
static atomic_long g_after_other;      /* trials that ran on a worker that had run another before */
static atomic_long g_rng_after_rng;    /* generator-using trial after another generator-using one */
static long g_per_worker[MAX_WORKERS]; /* each worker writes only its own slot */

static _Thread_local int my_worker = -1;
static _Thread_local int my_prev_used_rng = 0;

/* ------------------------------------------------------------------ hashing -- */

static inline uint64_t mix64(uint64_t z)
{
    z = (z ^ (z >> 30)) * UINT64_C(0xbf58476d1ce4e5b9);
    z = (z ^ (z >> 27)) * UINT64_C(0x94d049bb133111eb);
    return z ^ (z >> 31);
}

static inline uint64_t trial_hash(const uint64_t idx)
{
    return mix64(g.master + (idx + 1u) * UINT64_C(0x9e3779b97f4a7c15));
}

static inline uint64_t dbits(const double d)
{
    uint64_t u;
    memcpy(&u, &d, sizeof u);
    return u;
}

#define ACC(d, v) ((d) = mix64((d) ^ (uint64_t)(v)) + UINT64_C(0x632be59bd9b4e019))

static int kind_of(const uint64_t idx)
{
    if (g.tail_n > 0 && idx + g.tail_n >= g.n) return g.tail_kind;
    return g.mix[(trial_hash(idx) >> 40) % (unsigned)g.nmix];
}

/* ------------------------------------------------------------ element layout -- */

static inline size_t body_off(void) { return g.perfunc ? 8u : 0u; }
static inline size_t body_sz(void) { return g.ssize - body_off(); }
static inline uint64_t guard_word(const uint64_t idx) { return mix64(trial_hash(idx) ^ UINT64_C(0x6a09e667f3bcc908)); }
static inline uint64_t pay_word(const uint64_t digest, const size_t j) { return mix64(digest + j * UINT64_C(0x9e3779b97f4a7c15)); }

static uint64_t elem_counter(const char *t)
{
    const uint64_t *w = (const uint64_t *)(const void *)(t + body_off());
    return (body_sz() == 8u) ? (w[0] & 0xffffu) : w[0];
}

static uint64_t elem_digest(const char *t)
{
    const uint64_t *w = (const uint64_t *)(const void *)(t + body_off());
    return (body_sz() == 8u) ? (w[0] >> 16) : w[1];
}

static void elem_store(char *t, const uint64_t digest)
{
    uint64_t *w = (uint64_t *)(void *)(t + body_off());
    const size_t bs = body_sz();
    if (bs == 8u) {
        const uint64_t cnt = ((w[0] & 0xffffu) + 1u) & 0xffffu;
        w[0] = (digest << 16) | cnt;
        return;
    }
    w[0] = w[0] + 1u;
    w[1] = digest;
    if (bs >= 24u) {
        const size_t npay = bs / 8u - 3u;
        for (size_t j = 0; j < npay; j++) w[2 + j] = pay_word(digest, j);
    }
}

/* ------------------------------------------------------------- trial kinds -- */

#define UFLAG1 UINT32_C(0x00000001)
#define UFLAG2 UINT32_C(0x00000002)

static uint64_t do_busy(const uint64_t h, const uint64_t iters)
{
    uint64_t x = h;
    for (uint64_t i = 0; i < iters; i++) x = mix64(x + i);
    return x;
}

static uint64_t do_rng(const uint64_t h)
{
    static const double shapes[4] = { 1.0, 2.5, 7.0, 1.5 };
    uint64_t d = h;
    cmb_random_initialize(h);
    const unsigned nflip1 = 1u + 2u * (unsigned)((h >> 8) % 16u);      /* odd: 1..31 */
    for (unsigned i = 0; i < nflip1; i++) ACC(d, cmb_random_flip());
    ACC(d, dbits(cmb_random()));
    ACC(d, dbits(cmb_random_std_normal()));
    ACC(d, dbits(cmb_random_exponential(2.0)));
    ACC(d, dbits(cmb_random_gamma(shapes[(h >> 16) % 4u], 1.5)));
    ACC(d, cmb_random_dice(1, 6));
    ACC(d, cmb_random_bernoulli(0.3));
    ACC(d, dbits(cmb_random_uniform(-1.0, 3.0)));
    const unsigned nflip2 = 1u + (unsigned)((h >> 20) % 5u);
    for (unsigned i = 0; i < nflip2; i++) ACC(d, cmb_random_flip());
    ACC(d, cmb_random_sfc64());
    if (h & 0x10u) cmb_random_terminate();      /* optional by its documentation */
    return d;
}

static uint64_t do_flip(const uint64_t h)
{
    uint64_t d = h;
    cmb_random_initialize(h);
    ACC(d, cmb_random_flip());
    ACC(d, cmb_random_sfc64());
    if (h & 0x10u) cmb_random_terminate();
    return d;
}

static uint64_t do_log(const uint64_t idx, const uint64_t h)
{
    /* define our own logging state completely, log a little, leave the mask dirty */
    cmb_logger_flags_on(UINT32_C(0xFFFFFFFF));
    if (h & 1u) cmb_logger_flags_off(CMB_LOGGER_INFO);
    if (h & 2u) cmb_logger_flags_off(UFLAG1);
    cmb_logger_user(stdout, UFLAG1, "trial %" PRIu64 " user flag 1", idx);
    cmb_logger_user(stdout, UFLAG2, "trial %" PRIu64 " user flag 2", idx);
    cmb_logger_info(stdout, "trial %" PRIu64 " info", idx);
    if (h & 4u) cmb_logger_warning(stdout, "trial %" PRIu64 " warning", idx);
    const uint32_t leave = (uint32_t)(h >> 32) | 1u;
    if (h & 8u) cmb_logger_flags_off(leave & ~(CMB_LOGGER_FATAL | CMB_LOGGER_ERROR));
    return mix64(h ^ UINT64_C(0x10));
}

/* --- a small queueing simulation: customers share a resource, a producer and a
 *     consumer share a buffer; an end event stops everybody --- */

#define SIM_MAXP 8

struct simctx {
    struct cmb_resource *res;
    struct cmb_buffer *buf;
    struct cmb_process *procs[SIM_MAXP];
    int nprocs;
    double mean_ia, mean_sv;
    uint64_t served, produced, consumed;
    uint64_t acc;
};

struct simarg { struct simctx *sc; int id; };

static void *customer_proc(struct cmb_process *me, void *vctx)
{
    cmb_unused(me);
    const struct simarg *a = vctx;
    struct simctx *sc = a->sc;
    for (;;) {
        (void)cmb_process_hold(cmb_random_exponential(sc->mean_ia));
        if (cmb_resource_acquire(sc->res) != CMB_PROCESS_SUCCESS) continue;
        (void)cmb_process_hold(cmb_random_exponential(sc->mean_sv));
        cmb_resource_release(sc->res);
        sc->served++;
        ACC(sc->acc, dbits(cmb_time()) + (uint64_t)a->id);
        if (cmb_random_flip()) ACC(sc->acc, 7u);
    }
}

static void *producer_proc(struct cmb_process *me, void *vctx)
{
    cmb_unused(me);
    const struct simarg *a = vctx;
    struct simctx *sc = a->sc;
    for (;;) {
        (void)cmb_process_hold(cmb_random_exponential(0.7));
        uint64_t n = 1u + (uint64_t)cmb_random_dice(0, 2);
        (void)cmb_buffer_put(sc->buf, &n);
        sc->produced++;
        ACC(sc->acc, dbits(cmb_time()) ^ 0x50u);
    }
}

static void *consumer_proc(struct cmb_process *me, void *vctx)
{
    cmb_unused(me);
    const struct simarg *a = vctx;
    struct simctx *sc = a->sc;
    for (;;) {
        uint64_t n = 1u;
        (void)cmb_buffer_get(sc->buf, &n);
        sc->consumed++;
        ACC(sc->acc, dbits(cmb_time()) ^ 0xc0u);
        (void)cmb_process_hold(cmb_random_uniform(0.1, 1.0));
    }
}

static void sim_end_event(void *subject, void *object)
{
    cmb_unused(object);
    struct simctx *sc = subject;
    for (int k = 0; k < sc->nprocs; k++) cmb_process_stop(sc->procs[k], NULL);
    cmb_event_queue_clear();
}

static uint64_t do_sim(const uint64_t h)
{
    struct simctx sc;
    struct simarg args[SIM_MAXP];
    memset(&sc, 0, sizeof sc);
    cmb_logger_flags_on(UINT32_C(0xFFFFFFFF));
    if ((h & 7u) != 0u) cmb_logger_flags_off(CMB_LOGGER_INFO);   /* 1 in 8 runs with info logging on */
    cmb_logger_flags_off(CMB_LOGGER_WARNING);
    cmb_random_initialize(h);
    cmb_event_queue_initialize(0.0);

    sc.acc = h;
    sc.mean_ia = 1.0 + (double)((h >> 8) % 4u) * 0.5;
    sc.mean_sv = 0.5 + (double)((h >> 12) % 4u) * 0.25;
    sc.res = cmb_resource_create();
    cmb_resource_initialize(sc.res, "Server");
    sc.buf = cmb_buffer_create();
    cmb_buffer_initialize(sc.buf, "Store", ((h >> 16) & 1u) ? UINT64_MAX : 3u);

    const int ncust = 2 + (int)((h >> 20) % 3u);
    for (int k = 0; k < ncust + 2; k++) {
        args[k].sc = &sc;
        args[k].id = k;
        sc.procs[k] = cmb_process_create();
        cmb_process_func *f = (k < ncust) ? customer_proc : (k == ncust ? producer_proc : consumer_proc);
        cmb_process_initialize(sc.procs[k], (k < ncust) ? "Customer" : (k == ncust ? "Producer" : "Consumer"),
                               f, &args[k], (int64_t)(k % 2));
        cmb_process_start(sc.procs[k]);
    }
    sc.nprocs = ncust + 2;
    const double t_end = 10.0 + (double)((h >> 24) % 20u);
    /* event handles are values the documented API hands to the trial: they belong to its results */
    const uint64_t end_handle = cmb_event_schedule(sim_end_event, &sc, NULL, t_end, 0);

    cmb_event_queue_execute();

    uint64_t d = sc.acc;
    ACC(d, end_handle);
    ACC(d, cmb_event_current());
    ACC(d, sc.served);
    ACC(d, sc.produced);
    ACC(d, sc.consumed);
    ACC(d, dbits(cmb_time()));
    ACC(d, cmb_buffer_level(sc.buf));

    cmb_event_queue_terminate();
    for (int k = 0; k < sc.nprocs; k++) {
        cmb_process_terminate(sc.procs[k]);
        cmb_process_destroy(sc.procs[k]);
    }
    cmb_buffer_destroy(sc.buf);
    cmb_resource_destroy(sc.res);
    if (h & 0x10u) cmb_random_terminate();
    return d;
}

/* --- heavy use of the thread-local tag pools: m waiters on one target process
 *     (awaitable + waiter tags), the target queues m objects (queue tags) --- */

struct tagctx {
    struct cmb_process *target;
    struct cmb_objectqueue *oq;
    unsigned m;
    uint64_t acc;
    uint64_t objs[1];       /* m entries follow */
};

struct tagarg { struct tagctx *tc; unsigned id; };

static void *target_proc(struct cmb_process *me, void *vctx)
{
    cmb_unused(me);
    struct tagctx *tc = vctx;
    (void)cmb_process_hold(1.0 + cmb_random());
    for (unsigned k = 0; k < tc->m; k++) {
        tc->objs[k] = cmb_random_sfc64();
        (void)cmb_objectqueue_put(tc->oq, &tc->objs[k]);
    }
    (void)cmb_process_hold(cmb_random_exponential(1.0));
    return NULL;
}

static void *waiter_proc(struct cmb_process *me, void *vctx)
{
    cmb_unused(me);
    const struct tagarg *a = vctx;
    struct tagctx *tc = a->tc;
    (void)cmb_process_hold((double)(a->id % 3u) * 0.25);
    const int64_t sig = cmb_process_wait_process(tc->target);
    ACC(tc->acc, (uint64_t)sig + a->id);
    void *obj = NULL;
    (void)cmb_objectqueue_get(tc->oq, &obj);
    if (obj != NULL) ACC(tc->acc, *(uint64_t *)obj);
    ACC(tc->acc, dbits(cmb_time()));
    return NULL;
}

static uint64_t do_tags(const uint64_t h)
{
    static const unsigned sizes[8] = { 1u, 3u, 20u, 127u, 129u, 200u, 257u, 300u };
    const unsigned m = sizes[(h >> 8) % 8u];
    cmb_logger_flags_on(UINT32_C(0xFFFFFFFF));
    cmb_logger_flags_off(CMB_LOGGER_INFO | CMB_LOGGER_WARNING);
    cmb_random_initialize(h);
    cmb_event_queue_initialize(0.0);

    struct tagctx *tc = malloc(sizeof *tc + m * sizeof(uint64_t));
    tc->m = m;
    tc->acc = h;
    tc->oq = cmb_objectqueue_create();
    cmb_objectqueue_initialize(tc->oq, "Objects", UINT64_MAX);
    tc->target = cmb_process_create();
    cmb_process_initialize(tc->target, "Target", target_proc, tc, 0);
    cmb_process_start(tc->target);
    struct cmb_process **w = malloc(m * sizeof *w);
    struct tagarg *wa = malloc(m * sizeof *wa);
    for (unsigned k = 0; k < m; k++) {
        wa[k].tc = tc;
        wa[k].id = k;
        w[k] = cmb_process_create();
        cmb_process_initialize(w[k], "Waiter", waiter_proc, &wa[k], (int64_t)(k % 3u));
        cmb_process_start(w[k]);
    }

    cmb_event_queue_execute();

    uint64_t d = tc->acc;
    ACC(d, dbits(cmb_time()));
    ACC(d, cmb_objectqueue_length(tc->oq));

    cmb_event_queue_terminate();
    for (unsigned k = 0; k < m; k++) {
        cmb_process_terminate(w[k]);
        cmb_process_destroy(w[k]);
    }
    cmb_process_terminate(tc->target);
    cmb_process_destroy(tc->target);
    cmb_objectqueue_destroy(tc->oq);
    free(w);
    free(wa);
    free(tc);
    cmb_random_terminate();
    return d;
}

/* --- same-instant, equal-priority waiters on one resource: the order of service is recorded --- */

struct tiectx { struct cmb_resource *res; struct cmb_resourcepool *pool; uint64_t acc; };
struct tiearg { struct tiectx *tc; unsigned id; };

/* equal-priority holders of one pool unit each: which of them a preemption robs is recorded */
static void *tie_holder_proc(struct cmb_process *me, void *vctx)
{
    cmb_unused(me);
    const struct tiearg *a = vctx;
    if (cmb_resourcepool_acquire(a->tc->pool, 1u) == CMB_PROCESS_SUCCESS) {
        if (cmb_process_hold(100.0) == CMB_PROCESS_PREEMPTED) {
            ACC(a->tc->acc, 1000u + a->id);
        }
        else if (cmb_resourcepool_held_by_process(a->tc->pool, me) > 0u) {
            cmb_resourcepool_release(a->tc->pool, 1u);
        }
    }
    return NULL;
}

static void *tie_robber_proc(struct cmb_process *me, void *vctx)
{
    cmb_unused(me);
    const struct tiearg *a = vctx;
    (void)cmb_process_hold(50.0);
    if (cmb_resourcepool_preempt(a->tc->pool, 1u) == CMB_PROCESS_SUCCESS) {
        (void)cmb_process_hold(1.0);
        cmb_resourcepool_release(a->tc->pool, 1u);
    }
    return NULL;
}

static void *tie_proc(struct cmb_process *me, void *vctx)
{
    cmb_unused(me);
    const struct tiearg *a = vctx;
    if (cmb_resource_acquire(a->tc->res) == CMB_PROCESS_SUCCESS) {
        ACC(a->tc->acc, a->id);
        (void)cmb_process_hold(1.0);
        cmb_resource_release(a->tc->res);
    }
    return NULL;
}

static uint64_t do_ties(const uint64_t h)
{
    const unsigned m = 3u + (unsigned)((h >> 8) % 6u);
    cmb_logger_flags_on(UINT32_C(0xFFFFFFFF));
    cmb_logger_flags_off(CMB_LOGGER_INFO | CMB_LOGGER_WARNING);
    cmb_random_initialize(h);
    cmb_event_queue_initialize(0.0);
    struct tiectx tc = { cmb_resource_create(), cmb_resourcepool_create(), h };
    cmb_resource_initialize(tc.res, "Shared");
    cmb_resourcepool_initialize(tc.pool, "Pool", m);
    struct cmb_process *p[8], *q[8], *robber;
    struct tiearg a[8], ra;
    for (unsigned k = 0; k < m; k++) {
        a[k].tc = &tc;
        a[k].id = k;
        p[k] = cmb_process_create();
        cmb_process_initialize(p[k], "Tie", tie_proc, &a[k], 0);
        cmb_process_start(p[k]);
        q[k] = cmb_process_create();
        cmb_process_initialize(q[k], "Holder", tie_holder_proc, &a[k], 0);
        cmb_process_start(q[k]);
    }
    ra.tc = &tc;
    ra.id = 99u;
    robber = cmb_process_create();
    cmb_process_initialize(robber, "Robber", tie_robber_proc, &ra, 5);
    cmb_process_start(robber);
    cmb_event_queue_execute();
    uint64_t d = tc.acc;
    ACC(d, dbits(cmb_time()));
    cmb_event_queue_terminate();
    for (unsigned k = 0; k < m; k++) {
        cmb_process_terminate(p[k]);
        cmb_process_destroy(p[k]);
        cmb_process_terminate(q[k]);
        cmb_process_destroy(q[k]);
    }
    cmb_process_terminate(robber);
    cmb_process_destroy(robber);
    cmb_resourcepool_destroy(tc.pool);
    cmb_resource_destroy(tc.res);
    cmb_random_terminate();
    return d;
}

/* ---------------------------------------------------------- trial functions -- */

static void trial_body(void *vt, const int called_kind)
{
    char *t = vt;
    atomic_fetch_add(&g_inflight, 1);
    atomic_fetch_add(&g_started, 1);
    const intptr_t off = (intptr_t)((uintptr_t)t - (uintptr_t)g_base);
    if (off < 0 || (uint64_t)off >= g.n * g.ssize || ((uint64_t)off % g.ssize) != 0u) {
        /* not an element of the experiment array: do not touch it */
        if (atomic_exchange(&g_badptr, 1) == 0) atomic_store(&g_badoff, (long)off);
        atomic_fetch_add(&g_badcalls, 1);
        atomic_fetch_sub(&g_inflight, 1);
        return;
    }
    const uint64_t idx = (uint64_t)off / g.ssize;
    if (g_calls != NULL && atomic_load(&g_calls[idx]) < 255u) atomic_fetch_add(&g_calls[idx], 1);

    const int kind = kind_of(idx);
    if (called_kind >= 0 && called_kind != kind) atomic_store(&g_wrongfunc, 1);
    const int uses_rng = (kind == K_RNG || kind == K_FLIP || kind == K_SIM || kind == K_TAGS || kind == K_TIES);

    if (my_worker < 0) {
        my_worker = atomic_fetch_add(&g_nworkers, 1);
    }
    else {
        atomic_fetch_add(&g_after_other, 1);
        if (uses_rng && my_prev_used_rng) atomic_fetch_add(&g_rng_after_rng, 1);
    }
    if (uses_rng) my_prev_used_rng = 1;
    if (my_worker < MAX_WORKERS) g_per_worker[my_worker]++;

    const uint64_t h = trial_hash(idx);
    uint64_t d;
    switch (kind) {
    case K_ZERO: d = h; break;
    case K_BUSY: d = do_busy(h, 200u + (h >> 8) % 20000u); break;
    case K_LONG: d = do_busy(h, 400000u + (h >> 8) % 400000u); break;
    case K_RNG: d = do_rng(h); break;
    case K_FLIP: d = do_flip(h); break;
    case K_SIM: d = do_sim(h); break;
    case K_TAGS: d = do_tags(h); break;
    case K_TIES: d = do_ties(h); break;
    case K_NAP: {
        /* a trial that blocks (I/O-like): 8 .. 54 ms, longer for later trials, so that every worker is
         * still inside a trial when the last one starts and the last-started finishes last. The
         * duration is pure schedule provocation (not part of the result): the single-threaded
         * reference runs skip the sleep. */
        if (g.run == RUN_PAR) {
            struct timespec ts = { 0, (long)(16u + 4u * (idx % 24u)) * 500000L };
            nanosleep(&ts, NULL);
        }
        d = mix64(h ^ UINT64_C(0x4e41));
        break;
    }
    default: d = do_log(idx, h); break;
    }
    elem_store(t, d);
    atomic_fetch_add(&g_finished, 1);
    atomic_fetch_sub(&g_inflight, 1);
}

static void trial_any(void *vt) { trial_body(vt, -1); }

#define PERFUNC(name, k) static void name(void *vt) { trial_body(vt, k); }
PERFUNC(trial_zero, K_ZERO)
PERFUNC(trial_busy, K_BUSY)
PERFUNC(trial_long, K_LONG)
PERFUNC(trial_rng, K_RNG)
PERFUNC(trial_flip, K_FLIP)
PERFUNC(trial_sim, K_SIM)
PERFUNC(trial_tags, K_TAGS)
PERFUNC(trial_log, K_LOG)
PERFUNC(trial_nap, K_NAP)
PERFUNC(trial_ties, K_TIES)

static cimba_trial_func *const per_kind_func[K_NKINDS] = {
    trial_zero, trial_busy, trial_long, trial_rng, trial_flip, trial_sim, trial_tags, trial_log, trial_nap, trial_ties
};

/* ------------------------------------------------------------------ parsing -- */

static int parse_kind(const char *s)
{
    for (int k = 0; k < K_NKINDS; k++) if (strcmp(s, kind_names[k]) == 0) return k;
    return -1;
}

static int parse_case(char *text, struct xcase *c)
{
    char *cursor = text;
    char *line;
    char *tok[MAX_MIX + 2];
    memset(c, 0, sizeof *c);
    c->stride = 1;
    while ((line = cimx_next_line(&cursor)) != NULL) {
        const int nt = cimx_split(line, tok, MAX_MIX + 2);
        if (nt < 2) return -1;
        if (strcmp(tok[0], "run") == 0) {
            if (strcmp(tok[1], "par") == 0) c->run = RUN_PAR;
            else if (strcmp(tok[1], "seq") == 0) c->run = RUN_SEQ;
            else if (strcmp(tok[1], "sub") == 0) c->run = RUN_SUB;
            else return -1;
        }
        else if (strcmp(tok[0], "subplan") == 0 && nt >= 3) {
            /* which subset "run sub" executes; carried by every variant of the case */
            c->stride = cimx_u64(tok[1]);
            c->offset = cimx_u64(tok[2]);
            if (c->stride == 0) return -1;
        }
        else if (strcmp(tok[0], "func") == 0) {
            if (strcmp(tok[1], "common") == 0) c->perfunc = 0;
            else if (strcmp(tok[1], "per_trial") == 0) c->perfunc = 1;
            else return -1;
        }
        else if (strcmp(tok[0], "variant") == 0) { /* which build runs the case: read by the Python side */ }
        else if (strcmp(tok[0], "ntrials") == 0) c->n = cimx_u64(tok[1]);
        else if (strcmp(tok[0], "ssize") == 0) c->ssize = (size_t)cimx_u64(tok[1]);
        else if (strcmp(tok[0], "master") == 0) c->master = cimx_u64(tok[1]);
        else if (strcmp(tok[0], "mix") == 0) {
            c->nmix = 0;
            for (int j = 1; j < nt && c->nmix < MAX_MIX; j++) {
                const int k = parse_kind(tok[j]);
                if (k < 0) return -1;
                c->mix[c->nmix++] = (uint8_t)k;
            }
        }
        else if (strcmp(tok[0], "tail") == 0 && nt >= 3) {
            c->tail_n = cimx_u64(tok[1]);
            c->tail_kind = parse_kind(tok[2]);
            if (c->tail_kind < 0) return -1;
        }
        else return -1;
    }
    if (c->n == 0 || c->n > 400000u || c->nmix == 0) return -1;
    if (c->ssize < 8u || (c->ssize % 8u) != 0u || c->ssize > 65536u) return -1;
    if (c->perfunc && c->ssize < 16u) return -1;
    if (c->n * c->ssize > (UINT64_C(96) << 20)) return -1;
    return 0;
}

/* ------------------------------------------------------------------ running -- */

#define FAILF(...) do { if (nfail < 12) { fprintf(trace, "F "); fprintf(trace, __VA_ARGS__); \
                                          fprintf(trace, "\n"); } nfail++; } while (0)

int mode_experiment(char *text, FILE *trace)
{
    if (parse_case(text, &g) != 0) {
        fprintf(trace, "F parse error\n");
        return CIMX_PARSE_ERROR;
    }
    /* cimba logs to stdout (redirected to /dev/null by the zygote); start from the documented default mask */
    const uint64_t n = g.n;
    const size_t S = g.ssize;
    g_base = malloc(n * S);             /* exact size: ASan guards both ends */
    g_calls = calloc(n, 1);
    if (g_base == NULL || g_calls == NULL) {
        fprintf(trace, "F out of memory\n");
        return CIMX_PARSE_ERROR;
    }
    memset(g_base, 0, n * S);
    for (uint64_t i = 0; i < n; i++) {
        char *t = g_base + i * S;
        if (g.perfunc) {
            cimba_trial_func *f = per_kind_func[kind_of(i)];
            memcpy(t, &f, sizeof f);
        }
        if (body_sz() >= 24u) {
            const uint64_t gw = guard_word(i);
            memcpy(t + S - 8u, &gw, 8u);
        }
    }

    long finished_at_return = 0, inflight_at_return = 0, progress_after_return = 0;
    if (g.run == RUN_PAR) {
        cimba_run_experiment(g_base, n, S, g.perfunc ? NULL : trial_any);
        /* "returns only after all calls have finished": nothing may be in flight now and no
         * trial may start or finish from here on */
        inflight_at_return = atomic_load(&g_inflight);
        finished_at_return = atomic_load(&g_finished);
        const long started_at_return = atomic_load(&g_started);
        if (inflight_at_return != 0 || finished_at_return + atomic_load(&g_badcalls) < (long)n) {
            /* let stragglers finish so that the remaining checks read quiescent memory */
            for (int spin = 0; spin < 1500 && (atomic_load(&g_inflight) != 0
                 || atomic_load(&g_finished) + atomic_load(&g_badcalls) < (long)n); spin++) {
                struct timespec ts = { 0, 1000000 };
                nanosleep(&ts, NULL);
                if (spin >= 200 && atomic_load(&g_inflight) == 0
                    && atomic_load(&g_started) == started_at_return) break;   /* nobody is coming */
            }
        }
        progress_after_return = (atomic_load(&g_finished) - finished_at_return)
                                + (atomic_load(&g_started) - started_at_return);
    }
    else {
        const uint64_t first = (g.run == RUN_SUB) ? g.offset : 0u;
        const uint64_t step = (g.run == RUN_SUB) ? g.stride : 1u;
        for (uint64_t i = first; i < n; i += step) {
            char *t = g_base + i * S;
            if (g.perfunc) {
                cimba_trial_func *f;
                memcpy(&f, t, sizeof f);
                (*f)(t);
            }
            else {
                trial_any(t);
            }
        }
    }

    /* ---- in-executor oracle ---- */
    int nfail = 0;
    if (g.run == RUN_PAR) {
        if (inflight_at_return != 0 || progress_after_return > 0) {
            FAILF("cimba_run_experiment returned while trials were still running: %ld in flight, %ld of %" PRIu64
                  " finished at return, %ld trial starts/ends observed after return",
                  inflight_at_return, finished_at_return, n, progress_after_return);
        }
    }
    if (atomic_load(&g_badptr)) {
        FAILF("trial function called with a pointer that is not an element of the array (byte offset %ld, "
              "array %" PRIu64 " x %zu bytes)", atomic_load(&g_badoff), n, S);
    }
    if (atomic_load(&g_wrongfunc)) FAILF("an element was passed to a trial function other than the one it names");
    const uint64_t step = (g.run == RUN_SUB) ? g.stride : 1u;
    const uint64_t first = (g.run == RUN_SUB) ? g.offset : 0u;
    uint64_t executed = 0;
    for (uint64_t i = 0; i < n; i++) {
        const char *t = g_base + i * S;
        const int expected = (i >= first && (i - first) % step == 0u) ? 1 : 0;
        const unsigned calls = atomic_load(&g_calls[i]);
        const uint64_t cnt = elem_counter(t);
        executed += calls;
        if ((int)calls != expected) {
            FAILF("trial %" PRIu64 " of %" PRIu64 " (%s) was called %u times, expected %d", i, n,
                  kind_names[kind_of(i)], calls, expected);
        }
        else if (cnt != (uint64_t)expected) {
            FAILF("trial %" PRIu64 " of %" PRIu64 ": counter in its own element is %" PRIu64 ", expected %d",
                  i, n, cnt, expected);
        }
        if (body_sz() >= 24u) {
            uint64_t gw;
            memcpy(&gw, t + S - 8u, 8u);
            if (gw != guard_word(i)) FAILF("guard word at the end of element %" PRIu64 " was overwritten", i);
            if (expected && calls == 1u) {
                const uint64_t *w = (const uint64_t *)(const void *)(t + body_off());
                const size_t npay = body_sz() / 8u - 3u;
                for (size_t j = 0; j < npay; j++) {
                    if (w[2 + j] != pay_word(w[1], j)) {
                        FAILF("payload of element %" PRIu64 " does not match its digest at word %zu", i, j);
                        break;
                    }
                }
            }
        }
        if (g.perfunc) {
            cimba_trial_func *f;
            memcpy(&f, t, sizeof f);
            if (f != per_kind_func[kind_of(i)]) FAILF("function pointer of element %" PRIu64 " was overwritten", i);
        }
    }
    if (nfail > 12) fprintf(trace, "F ... %d failures in total\n", nfail);

    /* ---- digests ---- */
    for (uint64_t i = first; i < n && i < T_LINES; i += step) {
        const char *t = g_base + i * S;
        fprintf(trace, "T %" PRIu64 " %s %016" PRIx64 "\n", i, kind_names[kind_of(i)], elem_digest(t));
    }
    if (g.run != RUN_SUB) {
        for (uint64_t b = 0; b * B_BLOCK < n; b++) {
            uint64_t hsh = b;
            for (uint64_t i = b * B_BLOCK; i < n && i < (b + 1u) * B_BLOCK; i++) {
                ACC(hsh, elem_digest(g_base + i * S));
            }
            fprintf(trace, "B %" PRIu64 " %016" PRIx64 "\n", b, hsh);
        }
    }

    /* ---- classification ---- */
    const int nw = atomic_load(&g_nworkers);
    long wmax = 0, wmin = -1;
    for (int k = 0; k < nw && k < MAX_WORKERS; k++) {
        if (g_per_worker[k] > wmax) wmax = g_per_worker[k];
        if (wmin < 0 || g_per_worker[k] < wmin) wmin = g_per_worker[k];
    }
    unsigned kinds_present = 0;
    const uint64_t probe = (n < 4096u) ? n : 4096u;
    for (uint64_t i = 0; i < probe; i++) kinds_present |= 1u << kind_of(i);
    fprintf(trace, "N run=%d trials=%" PRIu64 " ssize=%zu executed=%" PRIu64 " workers=%d wmax=%ld wmin=%ld "
            "after_other=%ld rng_after_rng=%ld kinds=%u perfunc=%d mxcsr=%u\n",
            (int)g.run, n, S, executed, nw, wmax, wmin < 0 ? 0 : wmin, atomic_load(&g_after_other),
            atomic_load(&g_rng_after_rng), kinds_present, g.perfunc, (unsigned)_mm_getcsr());
    if (nfail == 0) free(g_base);
    return nfail ? CIMX_ORACLE_FAIL : CIMX_OK;
}
