/* placeholder, replaced when the mode is implemented */
#include "cimx.h"
int mode_experiment(char *text, FILE *trace) { (void)text; fprintf(trace, "F mode experiment not implemented\n"); return CIMX_PARSE_ERROR; }
