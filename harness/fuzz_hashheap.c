/*
 * fuzz_hashheap.c - libFuzzer front end for C02: bytes are decoded
 * structure-aware into the same op structs the Hypothesis path sends and run
 * through the same reference model (hh_run in m_hashheap.c). On an oracle
 * failure the case is written in text form (a replay file for cimx) and the
 * process traps.
 */
#include <stdint.h>
#include <stdio.h>
#include <stdlib.h>
#include <string.h>
#include <unistd.h>

#include "cmi_hashheap.h"

#include "cimx.h"
#include "m_hashheap.h"

static const double DS[] = { 0.0, 1.0, 2.0, 0.5, 1e300, -1.0, 5e-324, 3.0 };
static const int64_t IS[] = { -1, 0, 1, 2, INT64_MIN, INT64_MAX, 7, -7 };

int LLVMFuzzerTestOneInput(const uint8_t *data, size_t size)
{
    if (size < 2) return 0;
    struct hh_case c;
    c.kind = (enum hh_kind)(data[0] % 4u);
    c.exp = 1u + (data[1] % 6u);
    if (c.kind != HH_DEFAULT) c.exp = 3u;
    static struct hh_op ops[4096];
    c.ops = ops;
    c.nops = 0;
    size_t i = 2;
    while (i < size && c.nops < 4096) {
        struct hh_op *o = &ops[c.nops];
        memset(o, 0, sizeof *o);
        const uint8_t b = data[i++];
        const uint8_t a1 = (i < size) ? data[i++] : 0;
        const uint8_t a2 = (i < size) ? data[i++] : 0;
        switch (b % 16u) {
        case 0: case 1: case 2: case 3: case 4:
            o->op = HH_ENQ;
            o->key_is_auto = (b & 0x10u) ? 0 : 1;
            o->kg = (a1 >> 4) % 4u;
            o->kn = a1 % 6u;
            o->d = DS[a2 % 8u];
            o->i = IS[(a2 >> 3) % 8u];
            o->pl[0] = (void *)(uintptr_t)(a1 % 3u);
            o->pl[1] = (void *)(uintptr_t)((a1 >> 2) % 3u);
            o->pl[2] = (void *)(uintptr_t)((a2 >> 6) % 3u);
            break;
        case 5: case 6: case 7:
            o->op = HH_DEQ;
            i -= 2;
            break;
        case 8: case 9:
            o->op = HH_REM;
            o->ref = a1;
            i -= 1;
            break;
        case 10: case 11:
            o->op = HH_REPRIO;
            o->ref = a1;
            o->d = DS[a2 % 8u];
            o->i = IS[(a2 >> 3) % 8u];
            break;
        case 12: case 13: case 14: {
            o->op = (b % 16u == 12u) ? HH_PFIND : ((b % 16u == 13u) ? HH_PCOUNT : HH_PCANCEL);
            for (int j = 0; j < 3; j++) {
                const unsigned v = (a1 >> (2 * j)) % 4u;
                o->pl[j] = (v == 3u) ? CMI_ANY_ITEM : (void *)(uintptr_t)v;
            }
            o->pl[3] = (a2 & 1u) ? (void *)(uintptr_t)(1u + (a2 >> 1) % 12u) : CMI_ANY_ITEM;
            break;
        }
        default:
            o->op = (a1 % 8u == 0u) ? HH_CLEAR : ((a1 % 8u == 1u) ? HH_RESET : HH_QUERY);
            i -= 1;
            break;
        }
        c.nops++;
    }
    const char *dump = getenv("FUZZ_DUMP");      /* replaying an artifact: write the case as text first */
    if (dump != NULL) {
        FILE *df = fopen(dump, "w");
        if (df) { hh_print_case(&c, df); fclose(df); }
    }
    static FILE *sink = NULL;
    if (sink == NULL) sink = fopen("/dev/null", "w");
    const int r = hh_run(&c, sink);
    if (r != CIMX_OK) {
        const char *dir = getenv("FUZZ_CASE_DIR");
        char path[512];
        snprintf(path, sizeof path, "%s/case-%d-%zu.case", dir ? dir : ".", (int)getpid(), size);
        FILE *f = fopen(path, "w");
        if (f) { hh_print_case(&c, f); fclose(f); }
        __builtin_trap();
    }
    return 0;
}
