#ifndef M_HASHHEAP_H
#define M_HASHHEAP_H
#include <stdbool.h>
#include <stdint.h>
#include <stdio.h>

enum hh_kind { HH_DEFAULT = 0, HH_GUARD, HH_HOLDERS, HH_PQ };
enum hh_opcode { HH_ENQ = 0, HH_DEQ, HH_PEEK, HH_REM, HH_REPRIO, HH_PFIND,
                 HH_PCOUNT, HH_PCANCEL, HH_CLEAR, HH_RESET, HH_QUERY };

#define HH_KEY_GROUPS 8u
#define HH_KEYS_PER_GROUP 12u

struct hh_op {
    enum hh_opcode op;
    int key_is_auto;
    unsigned kg, kn;        /* caller key = hh_ckey(kg, kn) */
    unsigned ref;           /* @ref: index (mod count) into the keys used so far */
    double d;
    int64_t i;
    void *pl[4];            /* payload words 0..2 on enq; pattern words on p* */
};

struct hh_case {
    enum hh_kind kind;
    unsigned exp;
    int nops;
    struct hh_op *ops;
};

extern uint64_t hh_ckey(unsigned g, unsigned n);
extern int hh_parse(char *text, struct hh_case *c);
extern int hh_run(const struct hh_case *c, FILE *trace);
extern void hh_print_case(const struct hh_case *c, FILE *f);
#endif
