#ifndef M_MEMPOOL_H
#define M_MEMPOOL_H
/*
 * m_mempool.h - C20: case structures shared by the text path (mode "mempool")
 * and the libFuzzer front end (fuzz_mempool.c).
 */
#include <stddef.h>
#include <stdint.h>
#include <stdio.h>

#define MP_MAX_POOLS 3
#define MP_MAX_OBJ_SZ 8192u          /* generated sizes: multiples of 8 in 8..8192 */
#define MP_MAX_OBJ_NUM 300u
#define MP_MAX_LIVE 70000u           /* allocs beyond this total population are skipped */
#define MP_MAX_BYTES (UINT64_C(200) << 20)  /* ... or beyond this many chunk bytes per case */

enum mp_opcode { MP_ALLOC = 0, MP_FREE, MP_FREE_LAST, MP_REINIT, MP_CHECK };

struct mp_pooldef {
    int is_static;          /* 0: cmi_mempool_create + initialize; 1: thread-local static */
    unsigned static_idx;    /* which static pool (see mp_static_count) */
    size_t obj_sz;          /* dyn only */
    uint64_t obj_num;       /* dyn only */
};

struct mp_op {
    enum mp_opcode op;
    unsigned pool;
    unsigned ref;           /* MP_FREE: index (mod live count) of the first victim */
    unsigned n;             /* repetition count */
    size_t obj_sz;          /* MP_REINIT */
    uint64_t obj_num;       /* MP_REINIT */
};

struct mp_case {
    int in_thread;          /* run the whole history in a fresh pthread */
    int npools;
    struct mp_pooldef pools[MP_MAX_POOLS];
    int nops;
    struct mp_op *ops;
};

extern unsigned mp_static_count(void);
extern int mp_parse(char *text, struct mp_case *c);
extern int mp_run(const struct mp_case *c, FILE *trace);
extern void mp_print_case(const struct mp_case *c, FILE *f);
extern void mp_free_case(struct mp_case *c);
#endif
