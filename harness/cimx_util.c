/* cimx_util.c - tiny tokenizer helpers shared by all modes */
#include <errno.h>
#include <math.h>
#include <stdlib.h>
#include <string.h>

#include "cimx.h"

char *cimx_next_line(char **cursor)
{
    for (;;) {
        char *s = *cursor;
        if (s == NULL || *s == '\0') {
            return NULL;
        }
        char *nl = strchr(s, '\n');
        if (nl != NULL) {
            *nl = '\0';
            *cursor = nl + 1;
        }
        else {
            *cursor = s + strlen(s);
        }
        /* comment lines (replay files carry the observed trace as comments) */
        while (*s == ' ' || *s == '\t') s++;
        if (*s == '#' || *s == '\0' || *s == '\r') {
            continue;
        }
        return s;
    }
}

int cimx_split(char *line, char **tok, const int maxtok)
{
    int n = 0;
    char *save = NULL;
    for (char *t = strtok_r(line, " \t\r", &save); t != NULL && n < maxtok;
         t = strtok_r(NULL, " \t\r", &save)) {
        tok[n++] = t;
    }
    return n;
}

int64_t cimx_i64(const char *s)
{
    if (strcmp(s, "min") == 0) return INT64_MIN;
    if (strcmp(s, "max") == 0) return INT64_MAX;
    return (int64_t)strtoll(s, NULL, 0);
}

uint64_t cimx_u64(const char *s)
{
    if (strcmp(s, "max") == 0 || strcmp(s, "unlimited") == 0) return UINT64_MAX;
    return (uint64_t)strtoull(s, NULL, 0);
}

double cimx_dbl(const char *s)
{
    if (strcmp(s, "inf") == 0) return INFINITY;
    if (strcmp(s, "-inf") == 0) return -INFINITY;
    return strtod(s, NULL);
}
